// Derive-macro users that exist only for verification (C19): every arity 1..3 x 1..3 in `sync` mode, `sync_tag`
// mode, default / into fields, a non-copy output for the generated `new()`.  This file is copied into a scratch copy of
// /repo as tests/verif_syncx.rs; the macro EXPANSION of it (rustc -Zunpretty=expanded) is what unit `syncx` puts
// under contract -- i.e. the text /repo's rustradio_macros generates today, not a transcription of it.
#![allow(dead_code)]
#![allow(unused_parens)]
use rustradio::stream::{NCWriteStream, ReadStream, Tag, WriteStream};
use std::borrow::Cow;

/// 1 x 1, stateful, with a defaulted, an into and a plain field.
#[derive(rustradio_macros::Block)]
#[rustradio(new, sync)]
pub struct V11 {
    #[rustradio(in)]
    a: ReadStream<u32>,
    #[rustradio(out)]
    x: WriteStream<u32>,
    #[rustradio(default)]
    k: u32,
    #[rustradio(into)]
    gain: u64,
    plain: u8,
}
impl V11 {
    fn process_sync(&mut self, a: u32) -> u32 {
        self.k = self.k.wrapping_add(1);
        a ^ self.k
    }
}

/// 1 x 2
#[derive(rustradio_macros::Block)]
#[rustradio(new, sync)]
pub struct V12 {
    #[rustradio(in)]
    a: ReadStream<u8>,
    #[rustradio(out)]
    x: WriteStream<u8>,
    #[rustradio(out)]
    y: WriteStream<u32>,
}
impl V12 {
    fn process_sync(&self, a: u8) -> (u8, u32) {
        (!a, a as u32)
    }
}

/// 1 x 3
#[derive(rustradio_macros::Block)]
#[rustradio(new, sync)]
pub struct V13 {
    #[rustradio(in)]
    a: ReadStream<u32>,
    #[rustradio(out)]
    x: WriteStream<u32>,
    #[rustradio(out)]
    y: WriteStream<u32>,
    #[rustradio(out)]
    z: WriteStream<u8>,
}
impl V13 {
    fn process_sync(&self, a: u32) -> (u32, u32, u8) {
        (a, !a, (a & 0xff) as u8)
    }
}

/// 2 x 1
#[derive(rustradio_macros::Block)]
#[rustradio(new, sync)]
pub struct V21 {
    #[rustradio(in)]
    a: ReadStream<u32>,
    #[rustradio(in)]
    b: ReadStream<u8>,
    #[rustradio(out)]
    x: WriteStream<u32>,
}
impl V21 {
    fn process_sync(&self, a: u32, b: u8) -> u32 {
        a ^ (b as u32)
    }
}

/// 2 x 2
#[derive(rustradio_macros::Block)]
#[rustradio(new, sync)]
pub struct V22 {
    #[rustradio(in)]
    a: ReadStream<u32>,
    #[rustradio(in)]
    b: ReadStream<u32>,
    #[rustradio(out)]
    x: WriteStream<u32>,
    #[rustradio(out)]
    y: WriteStream<u32>,
}
impl V22 {
    fn process_sync(&self, a: u32, b: u32) -> (u32, u32) {
        (b, a)
    }
}

/// 2 x 3
#[derive(rustradio_macros::Block)]
#[rustradio(new, sync)]
pub struct V23 {
    #[rustradio(in)]
    a: ReadStream<u8>,
    #[rustradio(in)]
    b: ReadStream<u32>,
    #[rustradio(out)]
    x: WriteStream<u32>,
    #[rustradio(out)]
    y: WriteStream<u8>,
    #[rustradio(out)]
    z: WriteStream<u32>,
}
impl V23 {
    fn process_sync(&self, a: u8, b: u32) -> (u32, u8, u32) {
        (b, a, b ^ (a as u32))
    }
}

/// 3 x 1
#[derive(rustradio_macros::Block)]
#[rustradio(new, sync)]
pub struct V31 {
    #[rustradio(in)]
    a: ReadStream<u32>,
    #[rustradio(in)]
    b: ReadStream<u32>,
    #[rustradio(in)]
    c: ReadStream<u32>,
    #[rustradio(out)]
    x: WriteStream<u32>,
}
impl V31 {
    fn process_sync(&self, a: u32, b: u32, c: u32) -> u32 {
        a ^ !b ^ (c & 0xffff)
    }
}

/// 3 x 2
#[derive(rustradio_macros::Block)]
#[rustradio(new, sync)]
pub struct V32 {
    #[rustradio(in)]
    a: ReadStream<u32>,
    #[rustradio(in)]
    b: ReadStream<u8>,
    #[rustradio(in)]
    c: ReadStream<u32>,
    #[rustradio(out)]
    x: WriteStream<u32>,
    #[rustradio(out)]
    y: WriteStream<u8>,
}
impl V32 {
    fn process_sync(&self, a: u32, b: u8, c: u32) -> (u32, u8) {
        (a ^ c, !b)
    }
}

/// 3 x 3
#[derive(rustradio_macros::Block)]
#[rustradio(new, sync)]
pub struct V33 {
    #[rustradio(in)]
    a: ReadStream<u32>,
    #[rustradio(in)]
    b: ReadStream<u32>,
    #[rustradio(in)]
    c: ReadStream<u32>,
    #[rustradio(out)]
    x: WriteStream<u32>,
    #[rustradio(out)]
    y: WriteStream<u32>,
    #[rustradio(out)]
    z: WriteStream<u32>,
}
impl V33 {
    fn process_sync(&self, a: u32, b: u32, c: u32) -> (u32, u32, u32) {
        (c, a, b)
    }
}

/// 1 x 1 with tag processing written by the user.
#[derive(rustradio_macros::Block)]
#[rustradio(new, sync_tag)]
pub struct V11T {
    #[rustradio(in)]
    a: ReadStream<u32>,
    #[rustradio(out)]
    x: WriteStream<u32>,
}
impl V11T {
    fn process_sync_tags<'a>(&mut self, a: u32, a_tag: &'a [Tag]) -> (u32, Cow<'a, [Tag]>) {
        (!a, Cow::Borrowed(a_tag))
    }
}

/// 2 x 2 with tag processing written by the user: forwards the tags of the SECOND input.
#[derive(rustradio_macros::Block)]
#[rustradio(new, sync_tag)]
pub struct V22T {
    #[rustradio(in)]
    a: ReadStream<u32>,
    #[rustradio(in)]
    b: ReadStream<u8>,
    #[rustradio(out)]
    x: WriteStream<u8>,
    #[rustradio(out)]
    y: WriteStream<u32>,
}
impl V22T {
    fn process_sync_tags<'a>(
        &mut self,
        a: u32,
        _a_tag: &'a [Tag],
        b: u8,
        b_tag: &'a [Tag],
    ) -> (u8, u32, Cow<'a, [Tag]>) {
        (b, a, Cow::Borrowed(b_tag))
    }
}

/// generated new() with a non-copy output between two ordinary ones.
#[derive(rustradio_macros::Block)]
#[rustradio(new)]
pub struct VNew {
    #[rustradio(in)]
    a: ReadStream<u32>,
    #[rustradio(in)]
    b: ReadStream<u8>,
    #[rustradio(out)]
    x: WriteStream<u8>,
    #[rustradio(out)]
    p: NCWriteStream<Vec<u8>>,
    #[rustradio(out)]
    y: WriteStream<u32>,
    #[rustradio(default)]
    seen: u64,
    #[rustradio(into)]
    name: String,
    limit: usize,
}
impl rustradio::block::Block for VNew {
    fn work(&mut self) -> rustradio::Result<rustradio::block::BlockRet> {
        Ok(rustradio::block::BlockRet::EOF)
    }
}
