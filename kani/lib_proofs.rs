// Kani harnesses for src/lib.rs (injected as a child module of the crate root by kx; sees private items).
// Loop-free, full input domain => each successful harness is a complete proof (DESIGN.md U-kernels).
use super::*;

// `format!` on the (normally unreachable) error paths dominates CBMC's cost; the text of an error message is
// irrelevant to every claim made here.
#[allow(dead_code)]
fn stub_format(_args: core::fmt::Arguments<'_>) -> String {
    String::new()
}

macro_rules! codec_int {
    ($rt:ident, $pt:ident, $t:ty, $n:expr) => {
        /// parse(serialize(x)) == x and serialize(x).len() == size(), for every value of the type
        #[kani::proof]
        #[kani::stub(std::fmt::format, stub_format)]
        fn $rt() {
            let x: $t = kani::any();
            let b = x.serialize();
            assert!(b.len() == <$t as Sample>::size());
            match <$t as Sample>::parse(&b) {
                Ok(y) => assert!(y == x),
                Err(_) => assert!(false),
            }
        }
        /// parse never errs on a slice of the right length, and serialize(parse(d)) == d for every byte pattern
        #[kani::proof]
        #[kani::stub(std::fmt::format, stub_format)]
        fn $pt() {
            let d: [u8; $n] = kani::any();
            assert!(<$t as Sample>::size() == $n);
            match <$t as Sample>::parse(&d) {
                Ok(y) => {
                    let b = y.serialize();
                    assert!(b.len() == $n);
                    let mut i = 0;
                    while i < $n {
                        assert!(b[i] == d[i]);
                        i += 1;
                    }
                }
                Err(_) => assert!(false),
            }
        }
    };
}
codec_int!(codec_u8_roundtrip, codec_u8_parse_total, u8, 1);
codec_int!(codec_u32_roundtrip, codec_u32_parse_total, u32, 4);
codec_int!(codec_i32_roundtrip, codec_i32_parse_total, i32, 4);

/// Float: bit-identical for every bit pattern, NaN payloads included
#[kani::proof]
#[kani::stub(std::fmt::format, stub_format)]
fn codec_float_roundtrip() {
    let bits: u32 = kani::any();
    let x = Float::from_bits(bits);
    let b = x.serialize();
    assert!(b.len() == <Float as Sample>::size());
    match <Float as Sample>::parse(&b) {
        Ok(y) => assert!(y.to_bits() == bits),
        Err(_) => assert!(false),
    }
}
#[kani::proof]
#[kani::stub(std::fmt::format, stub_format)]
fn codec_float_parse_total() {
    let d: [u8; 4] = kani::any();
    match <Float as Sample>::parse(&d) {
        Ok(y) => {
            let b = y.serialize();
            assert!(b.len() == 4 && b[0] == d[0] && b[1] == d[1] && b[2] == d[2] && b[3] == d[3]);
        }
        Err(_) => assert!(false),
    }
}
/// Complex: both halves bit-identical, I first then Q
#[kani::proof]
#[kani::stub(std::fmt::format, stub_format)]
fn codec_complex_roundtrip() {
    let re: u32 = kani::any();
    let im: u32 = kani::any();
    let x = Complex::new(Float::from_bits(re), Float::from_bits(im));
    let b = x.serialize();
    assert!(b.len() == <Complex as Sample>::size());
    assert!(b.len() == 8);
    // wire format: little-endian I then little-endian Q
    let rb = re.to_le_bytes();
    let ib = im.to_le_bytes();
    assert!(b[0] == rb[0] && b[1] == rb[1] && b[2] == rb[2] && b[3] == rb[3]);
    assert!(b[4] == ib[0] && b[5] == ib[1] && b[6] == ib[2] && b[7] == ib[3]);
    match <Complex as Sample>::parse(&b) {
        Ok(y) => assert!(y.re.to_bits() == re && y.im.to_bits() == im),
        Err(_) => assert!(false),
    }
}
#[kani::proof]
#[kani::stub(std::fmt::format, stub_format)]
fn codec_complex_parse_total() {
    let d: [u8; 8] = kani::any();
    match <Complex as Sample>::parse(&d) {
        Ok(y) => {
            let b = y.serialize();
            assert!(b.len() == 8);
            let mut i = 0;
            while i < 8 {
                assert!(b[i] == d[i]);
                i += 1;
            }
        }
        Err(_) => assert!(false),
    }
}

/// Repeat counter on the compiled code, full u64 domain: cross-check of the Verus unit `repeat`.
#[kani::proof]
fn repeat_api_total() {
    let n: u64 = kani::any();
    let c: u64 = kani::any();
    kani::assume(c < u64::MAX - 3);
    let inf: bool = kani::any();
    let mut r = Repeat { repeater: if inf { Repeater::Infinite } else { Repeater::Finite(n) }, count: c };
    assert!(r.done() == (!inf && n == 0));
    let a1 = r.again();
    assert!(a1 == (inf || n > 1));
    assert!(r.count() == c + 1);
    let a2 = r.again();   // any call sequence: never panics
    assert!(a2 == (inf || n > 2));
    let _ = r.again();
    assert!(r.count() == c + 3);
    assert!(r.done() == (!inf && n <= 3));
}
