// Kani harnesses for src/descrambler.rs (Lfsr is private: injected as a child module).
use super::*;

/// For every mask, seed: u64, every len < 64 and every input bit: output bit and register update equal the
/// documented LFSR step (input bit shifted in at position `len`, output = parity of the masked register ^ input).
#[kani::proof]
fn lfsr_next_spec() {
    let mask: u64 = kani::any();
    let seed: u64 = kani::any();
    let len: u8 = kani::any();
    kani::assume(len < 64);
    let i: u8 = kani::any();
    kani::assume(i <= 1);
    let mut l = Lfsr::new(mask, seed, len);
    let r = l.next(i);
    let mut parity = 0u8;
    let mut b = 0;
    while b < 64 {
        parity ^= (((seed & mask) >> b) & 1) as u8;
        b += 1;
    }
    assert!(r == parity ^ i);
    assert!(l.shift_reg == (seed >> 1) | ((i as u64) << len));
    assert!(l.mask == mask && l.len == len);
}

/// C15: a stream byte of any value must not crash the descrambler.
#[kani::proof]
fn lfsr_next_total() {
    let mut l = Lfsr::new(kani::any(), kani::any(), 16);
    let _ = l.next(kani::any());
}
