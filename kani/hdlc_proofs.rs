// Kani harnesses for src/hdlc_deframer.rs
use super::*;

/// bit-at-a-time reflected CRC-16/X.25 (poly 0x8408, init 0xffff, xorout 0xffff): the definition FCSTAB encodes
fn crc_bitwise(data: &[u8]) -> u16 {
    let mut fcs: u16 = 0xffff;
    let mut i = 0;
    while i < data.len() {
        fcs ^= data[i] as u16;
        let mut b = 0;
        while b < 8 {
            fcs = if fcs & 1 == 1 { (fcs >> 1) ^ 0x8408 } else { fcs >> 1 };
            b += 1;
        }
        i += 1;
    }
    fcs ^ 0xffff
}

macro_rules! crc_len {
    ($name:ident, $n:expr) => {
        #[kani::proof]
        #[kani::unwind(10)]
        fn $name() {
            let d: [u8; $n] = kani::any();
            assert!(calc_crc(&d) == crc_bitwise(&d));
        }
    };
}
crc_len!(crc_len1, 1);
crc_len!(crc_len2, 2);
crc_len!(crc_len3, 3);
crc_len!(crc_len4, 4);
crc_len!(crc_len6, 6);
crc_len!(crc_len8, 8);

/// all 2^8 bit vectors: LSB first
#[kani::proof]
fn bits2byte_all() {
    let d: [u8; 8] = kani::any();
    kani::assume(d[0] <= 1 && d[1] <= 1 && d[2] <= 1 && d[3] <= 1 && d[4] <= 1 && d[5] <= 1 && d[6] <= 1 && d[7] <= 1);
    let r = bits2byte(&d);
    let want = d[0] + 2 * d[1] + 4 * d[2] + 8 * d[3] + 16 * d[4] + 32 * d[5] + 64 * d[6] + 128 * d[7];
    assert!(r == want);
}

/// C15: arbitrary byte values (not only 0/1) in the 8-element window never panic
#[kani::proof]
fn bits2byte_total() {
    let d: [u8; 8] = kani::any();
    let _ = bits2byte(&d);
}
