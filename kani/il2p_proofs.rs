// Kani harnesses for src/il2p_deframer.rs
use super::*;

#[kani::proof]
fn il2p_lfsr_next_spec() {
    let mask: u64 = kani::any();
    let seed: u64 = kani::any();
    let i: u8 = kani::any();
    kani::assume(i <= 1);
    let mut l = Lfsr::new(mask, seed);
    let r = l.next(i);
    assert!(r == (i ^ (seed as u8 & 1)));
    assert!(l.shift_reg == (seed >> 1) ^ (if i == 1 { mask } else { 0 }));
    assert!(l.mask == mask);
}

/// C15: a stream byte of any value must not crash the IL2P descrambling step.
#[kani::proof]
fn il2p_lfsr_next_total() {
    let mut l = Lfsr::new(kani::any(), kani::any());
    let _ = l.next(kani::any());
}

/// C15 / C10: bits_to_bytes on two bytes' worth of arbitrary stream bytes: no panic, MSB-first packing for real bits.
#[kani::proof]
#[kani::unwind(18)]
fn il2p_bits_to_bytes_16() {
    let bits: [u8; 16] = kani::any();
    let r = bits_to_bytes(&bits);
    assert!(r.len() == 2);
    let mut all_bits = true;
    let mut k = 0;
    while k < 16 {
        if bits[k] > 1 { all_bits = false; }
        k += 1;
    }
    if all_bits {
        let mut want0 = 0u8;
        let mut want1 = 0u8;
        let mut i = 0;
        while i < 8 {
            want0 |= bits[i] << (7 - i);
            want1 |= bits[8 + i] << (7 - i);
            i += 1;
        }
        assert!(r[0] == want0 && r[1] == want1);
    }
}
