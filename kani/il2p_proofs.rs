// Kani harnesses for src/il2p_deframer.rs
use super::*;

#[kani::proof]
fn il2p_lfsr_next_spec() {
    let mask: u64 = kani::any();
    let seed: u64 = kani::any();
    let i: u8 = kani::any();
    kani::assume(i <= 1);
    let mut l = Lfsr::new(mask, seed);
    let r = l.next(i);
    assert!(r == (i ^ (seed as u8 & 1)));
    assert!(l.shift_reg == (seed >> 1) ^ (if i == 1 { mask } else { 0 }));
    assert!(l.mask == mask);
}

/// C15: a stream byte of any value must not crash the IL2P descrambling step.
#[kani::proof]
fn il2p_lfsr_next_total() {
    let mut l = Lfsr::new(kani::any(), kani::any());
    let _ = l.next(kani::any());
}
