use vstd::prelude::*;
verus! {

// ---------- trusted stream-API shim (contract of ReadStream/WriteStream as established by unit U1)
pub struct TagView { pub pos: int, pub id: int }
#[verifier::external_body]
pub struct Tag { _p: usize }
impl View for Tag { type V = TagView; uninterp spec fn view(&self) -> TagView; }
impl Tag {
    #[verifier::external_body]
    fn pos(&self) -> (r: usize) ensures r == self@.pos { unimplemented!() }
}

pub struct Error { pub c: u8 }
pub type Result<T> = std::result::Result<T, Error>;

pub struct RSView<T> {
    pub consumed: Seq<T>,        // everything ever consumed
    pub pending: Seq<T>,         // committed, not yet consumed
    pub tags: Seq<(int, int)>,   // (absolute index, tag id) of pending tags, in delivery order
    pub cap: int,
}
#[verifier::external_body]
#[verifier::reject_recursive_types(T)]
pub struct ReadStream<T> { _p: std::marker::PhantomData<T> }
impl<T> View for ReadStream<T> { type V = RSView<T>; uninterp spec fn view(&self) -> RSView<T>; }

pub struct WSView<T> {
    pub produced: Seq<T>,        // everything ever committed
    pub tags: Seq<(int, int)>,   // (absolute index, tag id) ever committed
    pub cap: int,
}
#[verifier::external_body]
#[verifier::reject_recursive_types(T)]
pub struct WriteStream<T> { _p: std::marker::PhantomData<T> }
impl<T> View for WriteStream<T> { type V = WSView<T>; uninterp spec fn view(&self) -> WSView<T>; }

// Read window: snapshot
#[verifier::external_body]
#[verifier::reject_recursive_types(T)]
pub struct BufferReader<T> { _p: std::marker::PhantomData<T> }
impl<T> View for BufferReader<T> { type V = Seq<T>; uninterp spec fn view(&self) -> Seq<T>; }

#[verifier::external_body]
#[verifier::reject_recursive_types(T)]
pub struct BufferWriter<T> { _p: std::marker::PhantomData<T> }
pub struct BWView<T> { pub len: int, pub data: Seq<T> }
impl<T> View for BufferWriter<T> { type V = BWView<T>; uninterp spec fn view(&self) -> BWView<T>; }

pub open spec fn tags_of_window(ts: Seq<Tag>, base: int, all: Seq<(int,int)>) -> bool {
    &&& ts.len() == all.len()
    &&& forall|i: int| 0 <= i < ts.len() ==> #[trigger] all[i] == (base + ts[i]@.pos, ts[i]@.id)
}

impl<T: Copy> ReadStream<T> {
    // environment: producer may have committed more since last call => pending arbitrary extension; we model
    // read_buf as returning the current pending (monotonic growth is handled by `havoc_env`).
    // Environment step + snapshot: the producer may have committed more since the last call.
    #[verifier::external_body]
    fn read_buf(&mut self) -> (r: Result<(BufferReader<T>, Vec<Tag>)>)
        ensures
            final(self)@.consumed == old(self)@.consumed,
            old(self)@.pending.is_prefix_of(final(self)@.pending),
            final(self)@.cap == old(self)@.cap,
            final(self)@.pending.len() <= final(self)@.cap,
            r is Ok ==> {
                &&& r->Ok_0.0@ == final(self)@.pending
                &&& tags_of_window(r->Ok_0.1@, final(self)@.consumed.len() as int, final(self)@.tags)
                &&& forall|i: int| 0 <= i < r->Ok_0.1@.len() ==> 0 <= #[trigger] r->Ok_0.1@[i]@.pos < final(self)@.pending.len()
            }
    { unimplemented!() }
    // was: W.consume(n) on the window; rewritten to name the stream the window came from
    #[verifier::external_body]
    fn consume(&mut self, w: BufferReader<T>, n: usize)
        requires n <= w@.len(), w@.is_prefix_of(old(self)@.pending),   // else: refused (panic) by Buffer::consume
        ensures
            final(self)@.consumed == old(self)@.consumed + old(self)@.pending.take(n as int),
            final(self)@.pending == old(self)@.pending.skip(n as int),
            final(self)@.cap == old(self)@.cap,
            final(self)@.tags == old(self)@.tags.filter(|t: (int,int)| t.0 >= old(self)@.consumed.len() + n),
    { unimplemented!() }
}
impl<T: Copy> BufferReader<T> {
    #[verifier::external_body]
    fn len(&self) -> (r: usize) ensures r == self@.len() { unimplemented!() }
    #[verifier::external_body]
    fn is_empty(&self) -> (r: bool) ensures r == (self@.len() == 0) { unimplemented!() }
}
impl<T: Copy> BufferWriter<T> {
    #[verifier::external_body]
    fn len(&self) -> (r: usize) ensures r == self@.len { unimplemented!() }
    #[verifier::external_body]
    fn is_empty(&self) -> (r: bool) ensures r == (self@.len == 0) { unimplemented!() }
}


impl<T: Copy> WriteStream<T> {
    #[verifier::external_body]
    fn write_buf(&mut self) -> (r: Result<BufferWriter<T>>)
        ensures final(self)@ == old(self)@,
            r is Ok ==> 0 <= r->Ok_0@.len <= final(self)@.cap && r->Ok_0@.data.len() == r->Ok_0@.len,
    { unimplemented!() }
    #[verifier::external_body]
    fn produce(&mut self, w: BufferWriter<T>, n: usize, tags: &[Tag])
        requires n <= w@.len,                                              // else refused (panic)
            forall|i: int| 0 <= i < tags@.len() ==> 0 <= #[trigger] tags@[i]@.pos < n,   // stream contract (C12)
        ensures
            final(self)@.produced == old(self)@.produced + w@.data.take(n as int),
            final(self)@.cap == old(self)@.cap,
            final(self)@.tags == old(self)@.tags + tags@.map_values(|t: Tag| (old(self)@.produced.len() + t@.pos, t@.id)),
    { unimplemented!() }
}
impl<T: Copy> BufferReader<T> {
    #[verifier::external_body]
    fn slice(&self) -> (r: &[T]) ensures r@ == self@ { unimplemented!() }
}
impl<T: Copy> BufferWriter<T> {
    // real method BufferWriter::fill_from_slice: self.slice()[..src.len()].copy_from_slice(src)
    #[verifier::external_body]
    fn fill_from_slice(&mut self, src: &[T])
        requires src@.len() <= old(self)@.len,                 // else slice-index panic
        ensures final(self)@.len == old(self)@.len, final(self)@.data.len() == final(self)@.len,
            final(self)@.data.take(src@.len() as int) == src@,
    { unimplemented!() }
    // o.slice()[..n].fill(v)
    #[verifier::external_body]
    fn fill_prefix(&mut self, n: usize, v: T)
        requires n <= old(self)@.len,
        ensures final(self)@.len == old(self)@.len, final(self)@.data.len() == final(self)@.len,
            final(self)@.data.take(n as int) == Seq::new(n as nat, |i: int| v),
    { unimplemented!() }
    // o.slice()[..len].copy_from_slice(&i.slice()[..len])
    #[verifier::external_body]
    fn copy_prefix_from(&mut self, src: &BufferReader<T>, len: usize)
        requires len <= old(self)@.len, len <= src@.len(),              // else slice-index panic
        ensures final(self)@.len == old(self)@.len, final(self)@.data.len() == final(self)@.len,
            final(self)@.data.take(len as int) == src@.take(len as int),
    { unimplemented!() }
}

fn min_usize(a: usize, b: usize) -> (r: usize) ensures r == if a <= b { a } else { b } { if a <= b { a } else { b } }
proof fn lemma_skip_push<T>(a: Seq<T>, x: Seq<T>, k: int)
    requires 0 <= k <= a.len()
    ensures (a + x).skip(k) == a.skip(k) + x
{ assert((a + x).skip(k) =~= a.skip(k) + x); }
pub enum BlockRet { Again, Pending, WaitForStream(usize, usize), EOF }
pub uninterp spec fn id_of_src() -> int;
pub uninterp spec fn id_of_dst() -> int;


pub uninterp spec fn spec_default<T>() -> T;
#[verifier::external_body]
fn default_of<T: Copy>() -> (r: T) ensures r == spec_default::<T>() { unimplemented!() }

#[verifier::reject_recursive_types(T)]
pub struct Delay<T> { delay: usize, current_delay: usize, skip: usize, src: ReadStream<T>, dst: WriteStream<T> }

pub open spec fn zeros<T>(n: int) -> Seq<T> { Seq::new(n as nat, |i: int| spec_default::<T>()) }

impl<T: Copy> Delay<T> {
    // stream function for the constructor-time delay d (skip == 0): out == 0^d ++ in
    spec fn inv(&self, d: int) -> bool {
        &&& self.skip == 0
        &&& 0 <= self.current_delay <= d
        &&& (self.current_delay > 0 ==> self.src@.consumed.len() == 0)
        &&& self.dst@.produced == zeros::<T>(d - self.current_delay) + self.src@.consumed
    }

    fn work(&mut self, Ghost(d): Ghost<int>) -> (r: Result<BlockRet>)
        requires old(self).inv(d),
        ensures final(self).inv(d),
    {
        {
            let o = self.dst.write_buf()?;
            if o.is_empty() {
                return Ok(BlockRet::Again);
            }
        }
        if self.current_delay > 0 {
            let mut o = self.dst.write_buf()?;
            let n = min_usize(self.current_delay, o.len());
            if n == 0 {
                return Ok(BlockRet::WaitForStream(0, 1));
            }
            o.fill_prefix(n, default_of::<T>());
            let ghost p0 = self.dst@.produced;
            self.dst.produce(o, n, &[]);
            self.current_delay -= n;
            proof {
                assert(self.dst@.produced =~= zeros::<T>(d - self.current_delay) + self.src@.consumed);
            }
        }
        {
            let (input, _tags) = self.src.read_buf()?;
            let a = input.len();
            let n = min_usize(a, self.skip);
            if n == 0 && a == 0 {
                return Ok(BlockRet::WaitForStream(0, 1));
            }
            self.src.consume(input, n);
            self.skip -= n;
            proof { assert(self.src@.consumed =~= old(self).src@.consumed); }
        }
        let mut o = self.dst.write_buf()?;
        let (input, tags) = self.src.read_buf()?;
        let n = min_usize(input.len(), o.len());
        o.fill_from_slice(input.slice());
        let ghost c1 = self.src@.consumed; let ghost p1 = self.dst@.produced; let ghost iw = input@; let ghost od = o@.data;
        proof { assert(od.take(n as int) =~= iw.take(n as int)) by { assert(od.take(iw.len() as int) == iw); assert forall|q: int| 0 <= q < n implies od.take(n as int)[q] == iw.take(n as int)[q] by { assert(od.take(iw.len() as int)[q] == iw[q]); } } }
        self.dst.produce(o, n, &tags);
        self.src.consume(input, n);
        proof {
            assert(self.src@.consumed == c1 + iw.take(n as int));
            assert(self.dst@.produced == p1 + iw.take(n as int));
            assert(self.dst@.produced =~= zeros::<T>(d - self.current_delay) + self.src@.consumed);
        }
        Ok(BlockRet::Again)
    }
}

} // verus!
fn main() {}
