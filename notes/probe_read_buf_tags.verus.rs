use vstd::prelude::*;
use vstd::arithmetic::div_mod::*;
verus! {

pub type TagPos = usize;
pub struct TagView { pub pos: int, pub id: int }
#[verifier::external_body]
pub struct Tag { _p: usize }
impl View for Tag { type V = TagView; uninterp spec fn view(&self) -> TagView; }
impl Tag {
    #[verifier::external_body]
    fn pos(&self) -> (r: TagPos) ensures r == self@.pos { unimplemented!() }
    #[verifier::external_body]
    fn with_pos(&self, pos: TagPos) -> (r: Tag) ensures r@ == (TagView { pos: pos as int, id: self@.id }) { unimplemented!() }
}

#[verifier::external_body]
pub struct TagMap { _p: usize }
pub struct TagMapView { pub keys: Seq<int>, pub vals: Seq<Seq<TagView>> }   // ascending keys, parallel value vectors
impl View for TagMap { type V = TagMapView; uninterp spec fn view(&self) -> TagMapView; }
pub open spec fn tm_wf(v: TagMapView) -> bool {
    &&& v.keys.len() == v.vals.len()
    &&& forall|i: int, j: int| 0 <= i < j < v.keys.len() ==> v.keys[i] < v.keys[j]
    &&& forall|i: int| 0 <= i < v.keys.len() ==> 0 <= #[trigger] v.keys[i] <= usize::MAX
}
impl TagMap {
    #[verifier::external_body]
    fn nkeys(&self) -> (r: usize) requires tm_wf(self@) ensures r == self@.keys.len() { unimplemented!() }
    #[verifier::external_body]
    fn entry_at(&self, i: usize) -> (r: (&TagPos, &Vec<Tag>))
        requires tm_wf(self@), i < self@.keys.len()
        ensures *r.0 == self@.keys[i as int], r.1@.len() == self@.vals[i as int].len(),
            forall|j: int| 0 <= j < r.1@.len() ==> #[trigger] r.1@[j]@ == self@.vals[i as int][j],
    { unimplemented!() }
}

struct BufferState { rpos: usize, wpos: usize, used: usize, circ_len: usize, member_size: usize, tags: TagMap }

#[verifier::external_body]
fn refuse() ensures false { panic!() }

pub open spec fn ring_dist(from: int, to: int, cap: int) -> int { (to - from + cap) % cap }

impl BufferState {
    spec fn cap(&self) -> int { (self.circ_len as int) / (self.member_size as int) }
    spec fn wf(&self) -> bool {
        &&& self.member_size > 0
        &&& 2 * self.circ_len <= usize::MAX
        &&& self.cap() > 0
        &&& self.rpos < self.cap() && self.wpos < self.cap() && self.used <= self.cap()
        &&& self.wpos as int == (self.rpos + self.used) % self.cap()
        &&& tm_wf(self.tags@)
        &&& forall|i: int| 0 <= i < self.tags@.keys.len() ==> {
              let k = #[trigger] self.tags@.keys[i];
              &&& 0 <= k < self.cap() && ring_dist(self.rpos as int, k, self.cap()) < self.used
              &&& forall|j: int| 0 <= j < self.tags@.vals[i].len() ==> (#[trigger] self.tags@.vals[i][j]).pos == k
           }
    }
    fn capacity(&self) -> (r: usize) requires self.member_size > 0 ensures r == self.cap() { self.circ_len / self.member_size }
    fn read_range(&self) -> (r: (usize, usize)) requires self.wf() ensures r.0 == self.rpos, r.1 == self.rpos + self.used { (self.rpos, self.rpos + self.used) }
}

proof fn lemma_dist(rpos: int, k: int, cap: int)
    requires cap > 0, 0 <= rpos < cap, 0 <= k < cap
    ensures ring_dist(rpos, k, cap) == (if k >= rpos { k - rpos } else { k - rpos + cap }),
            (k + cap - rpos) % cap == ring_dist(rpos, k, cap)
{
    if k >= rpos { lemma_mod_sub_multiples_vanish(k - rpos + cap, cap); lemma_small_mod((k - rpos) as nat, cap as nat); }
    else { lemma_small_mod((k - rpos + cap) as nat, cap as nat); }
}

// flattened expected output before sorting: for keys[0..i), all their tags rebased
pub open spec fn flat(v: TagMapView, rpos: int, cap: int, i: int) -> Seq<TagView>
    decreases i
{
    if i <= 0 { Seq::empty() } else {
        flat(v, rpos, cap, i - 1) + v.vals[i - 1].map_values(|t: TagView| TagView { pos: ring_dist(rpos, v.keys[i - 1], cap), id: t.id })
    }
}

fn read_buf_tags(s: &BufferState) -> (r: (usize, usize, Vec<Tag>))
    requires s.wf()
    ensures r.0 == s.rpos, r.1 == s.rpos + s.used,
        r.2@.len() == flat(s.tags@, s.rpos as int, s.cap(), s.tags@.keys.len() as int).len(),
        forall|x: int| 0 <= x < r.2@.len() ==> #[trigger] r.2@[x]@ == flat(s.tags@, s.rpos as int, s.cap(), s.tags@.keys.len() as int)[x],
        forall|x: int| 0 <= x < r.2@.len() ==> 0 <= (#[trigger] r.2@[x]@).pos < s.used,
{
    let (start, end) = s.read_range();
    let mut tags: Vec<Tag> = Vec::new();
    let ghost cap = s.cap();
    let ghost rp = s.rpos as int;

    let mut __i: usize = 0;
    while __i < s.tags.nkeys()
        invariant
            s.wf(), cap == s.cap(), rp == s.rpos, start == s.rpos, end == s.rpos + s.used,
            __i <= s.tags@.keys.len(),
            tags@.len() == flat(s.tags@, rp, cap, __i as int).len(),
            forall|x: int| 0 <= x < tags@.len() ==> #[trigger] tags@[x]@ == flat(s.tags@, rp, cap, __i as int)[x],
            forall|x: int| 0 <= x < tags@.len() ==> 0 <= (#[trigger] tags@[x]@).pos < s.used,
        decreases s.tags@.keys.len() - __i
    {
        let (n, ts) = s.tags.entry_at(__i);
        __i += 1;
        let ghost ki = (__i - 1) as int;
        proof { assert(s.tags@.keys[ki] == *n); lemma_dist(rp, *n as int, cap); lemma_small_mod(*n as nat, cap as nat); }
        let modded_n: usize = *n % s.capacity();
        if end < s.capacity() && start < s.capacity() {
            if modded_n < start || modded_n > end {
                proof { assert(false); }
                continue;
            }
        } else {
            if !(start < s.capacity()) { refuse(); }
            proof {
                if end as int - cap < cap && end >= cap { lemma_mod_sub_multiples_vanish(end as int, cap); lemma_small_mod((end - cap) as nat, cap as nat); }
            }
            if modded_n > (end % s.capacity()) && modded_n < start {
                proof { assert(false); }
                continue;
            }
        }
        let ghost before = tags@;
        let mut j: usize = 0;
        while j < ts.len()
            invariant
                s.wf(), cap == s.cap(), rp == s.rpos, start == s.rpos, 0 <= ki < s.tags@.keys.len(), s.tags@.keys[ki] == *n,
                j <= ts@.len(), ts@.len() == s.tags@.vals[ki].len(),
                forall|q: int| 0 <= q < ts@.len() ==> #[trigger] ts@[q]@ == s.tags@.vals[ki][q],
                tags@.len() == before.len() + j,
                forall|x: int| 0 <= x < before.len() ==> tags@[x] == before[x],
                forall|q: int| 0 <= q < j ==> (#[trigger] tags@[before.len() + q])@ == (TagView { pos: ring_dist(rp, *n as int, cap), id: s.tags@.vals[ki][q].id }),
            decreases ts@.len() - j
        {
            let tag = &ts[j];
            proof { assert(ts@[j as int]@ == s.tags@.vals[ki][j as int]); assert(s.tags@.vals[ki][j as int].pos == *n); lemma_dist(rp, *n as int, cap); }
            tags.push(tag.with_pos((tag.pos() + s.capacity() - start) % s.capacity()));
            j += 1;
        }
        proof {
            let f0 = flat(s.tags@, rp, cap, ki);
            let f1 = flat(s.tags@, rp, cap, ki + 1);
            let add = s.tags@.vals[ki].map_values(|t: TagView| TagView { pos: ring_dist(rp, s.tags@.keys[ki], cap), id: t.id });
            assert(f1 == f0 + add);
            assert(tags@.len() == f1.len());
            assert forall|x: int| 0 <= x < tags@.len() implies #[trigger] tags@[x]@ == f1[x] by {
                if x < before.len() { assert(tags@[x] == before[x]); } else { let q = x - before.len(); assert(tags@[before.len() + q]@ == add[q]); }
            }
            assert forall|x: int| 0 <= x < tags@.len() implies 0 <= (#[trigger] tags@[x]@).pos < s.used by {
                if x < before.len() { assert(tags@[x] == before[x]); } else { let q = x - before.len(); assert(tags@[before.len() + q]@.pos == ring_dist(rp, *n as int, cap)); }
            }
        }
    }
    (start, end, tags)
}

} // verus!
fn main() {}
