use rustradio::block::{Block, BlockRet};
use rustradio::blocks::*;
use rustradio::circular_buffer::Buffer;
use rustradio::stream::{Tag, TagValue};
use rustradio::Repeat;
use std::sync::Arc;

#[test]
fn f01_consume0_drops_tags() {
    let b: Arc<Buffer<u8>> = Arc::new(Buffer::new(4096).unwrap());
    let w = b.clone().write_buf().unwrap();
    w.produce(10, &[Tag::new(3, "t", TagValue::Bool(true))]);
    let (r, tags) = b.clone().read_buf().unwrap();
    assert_eq!(tags.len(), 1);
    r.consume(0);
    let (_r, tags) = b.clone().read_buf().unwrap();
    assert_eq!(tags.len(), 1, "consume(0) discarded tags");
}

#[test]
fn f02_nondividing_elem() {
    let r = Buffer::<[u8; 12]>::new(4096);
    assert!(r.is_err(), "12-byte element accepted for 4096-byte buffer");
}

#[test]
fn f03_repeat_underflow() {
    let mut r = Repeat::finite(0);
    let _ = r.again();
}

#[test]
fn f05a_delay_panics_when_input_exceeds_output() {
    // src full (capacity samples), delay 1 => output has capacity-1 after zero fill.
    let n = 4_096_000usize;
    let (mut src, s) = VectorSource::new(vec![1u8; n]);
    let _ = src.work().unwrap();
    let (mut d, _o) = Delay::new(s, 1);
    let _ = d.work().unwrap();
}

#[test]
fn f10_append_creates() {
    let dir = tempfile::tempdir().unwrap();
    let p = dir.path().join("nofile.bin");
    let (_src, s) = VectorSource::new(vec![1u8; 4]);
    let r = FileSink::<u8>::new(s, &p, rustradio::file_sink::Mode::Append);
    assert!(r.is_ok(), "append to absent file failed: {:?}", r.err());
}

#[test]
fn f07_first_tag_repeats() {
    let n = 4_096_000usize + 10;
    let (mut src, s) = VectorSource::new(vec![1u8; n]);
    let _ = src.work().unwrap();
    {
        let (r, _t) = s.read_buf().unwrap();
        let l = r.len();
        r.consume(l);
    }
    let _ = src.work().unwrap();
    let (_r, t) = s.read_buf().unwrap();
    assert!(t.is_empty(), "tags on second chunk: {:?}", t);
}

#[test]
fn f09_resampler_chunking() {
    // interp 2, deci 1, feed [1,2] with only 1 free output slot at first.
    let (mut src, s) = VectorSource::new(vec![1u8, 2]);
    let _ = src.work().unwrap();
    let (mut rr, o) = RationalResampler::new(s, 2, 1).unwrap();
    // Fill output so that only 1 slot is free: can't easily; instead emulate by draining in steps is not possible
    // with 4MB buffers, so just run once as reference.
    let _ = rr.work().unwrap();
    let (r, _) = o.read_buf().unwrap();
    assert_eq!(r.slice(), &[1, 1, 2, 2]);
}
