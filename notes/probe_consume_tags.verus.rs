use vstd::prelude::*;
use vstd::arithmetic::div_mod::*;
verus! {

pub type TagPos = usize;

pub struct TagView { pub pos: int, pub id: int }
#[verifier::external_body]
pub struct Tag { _p: usize }
impl View for Tag { type V = TagView; uninterp spec fn view(&self) -> TagView; }

#[verifier::external_body]
pub struct TagMap { _p: usize }
impl View for TagMap {
    type V = Map<int, Seq<TagView>>;
    uninterp spec fn view(&self) -> Map<int, Seq<TagView>>;
}
pub open spec fn has(v: Seq<usize>, k: int) -> bool { exists|i: int| 0 <= i < v.len() && v[i] == k }
pub enum Bnd { Included(usize), Excluded(usize) }
pub open spec fn lo_ok(b: Bnd, k: int) -> bool { match b { Bnd::Included(a) => a <= k, Bnd::Excluded(a) => a < k } }
pub open spec fn hi_ok(b: Bnd, k: int) -> bool { match b { Bnd::Included(a) => k <= a, Bnd::Excluded(a) => k < a } }

impl TagMap {
    // X.range((LO, HI)).map(|(k, _)| *k).collect()
    #[verifier::external_body]
    fn range_keys(&self, lo: Bnd, hi: Bnd) -> (r: Vec<TagPos>)
        ensures forall|k: int| #[trigger] has(r@, k) <==> (self@.dom().contains(k) && lo_ok(lo, k) && hi_ok(hi, k)),
    { unimplemented!() }
    // T.extend(X.range((LO, HI)).map(|(k, _)| *k))
    #[verifier::external_body]
    fn range_keys_extend(&self, t: &mut Vec<TagPos>, lo: Bnd, hi: Bnd)
        ensures forall|k: int| #[trigger] has(final(t)@, k) <==> (has(old(t)@, k) || (self@.dom().contains(k) && lo_ok(lo, k) && hi_ok(hi, k))),
    { unimplemented!() }
    #[verifier::external_body]
    fn remove(&mut self, k: &TagPos)
        ensures final(self)@ == old(self)@.remove(*k as int)
    { unimplemented!() }
}

struct BufferState {
    rpos: usize,
    wpos: usize,
    used: usize,
    circ_len: usize,
    member_size: usize,
    tags: TagMap,
}

#[verifier::external_body]
fn refuse() ensures false { panic!() }

pub open spec fn ring_dist(from: int, to: int, cap: int) -> int { (to - from + cap) % cap }

impl BufferState {
    spec fn cap(&self) -> int { (self.circ_len as int) / (self.member_size as int) }
    spec fn wf(&self) -> bool {
        &&& self.member_size > 0
        &&& 2 * self.circ_len <= usize::MAX
        &&& self.cap() > 0
        &&& self.rpos < self.cap()
        &&& self.wpos < self.cap()
        &&& self.used <= self.cap()
        &&& self.wpos as int == (self.rpos + self.used) % self.cap()
        // every stored tag key lies in the readable ring range
        &&& forall|k: int| self.tags@.dom().contains(k) ==> 0 <= k < self.cap() && ring_dist(self.rpos as int, k, self.cap()) < self.used
    }
    fn capacity(&self) -> (r: usize)
        requires self.member_size > 0,
        ensures r == self.cap(),
    { self.circ_len / self.member_size }
}

proof fn lemma_ring(rpos: int, n: int, cap: int, k: int)
    requires cap > 0, 0 <= rpos < cap, 0 <= n <= cap, 0 <= k < cap,
    ensures
        ({ let newpos = (rpos + n) % cap;
           let d = ring_dist(rpos, k, cap);
           &&& (newpos > rpos ==> ((rpos <= k < newpos) <==> d < n))
           &&& (newpos <= rpos && n > 0 ==> (((rpos <= k < cap) || (0 <= k < newpos)) <==> d < n))
           &&& (n == 0 ==> newpos == rpos)
           &&& (d >= n ==> ring_dist(newpos, k, cap) == d - n)
        }),
{
    let newpos = (rpos + n) % cap;
    if rpos + n < cap {
        lemma_small_mod((rpos + n) as nat, cap as nat);
    } else {
        lemma_mod_sub_multiples_vanish(rpos + n, cap);
        lemma_small_mod((rpos + n - cap) as nat, cap as nat);
    }
    if k >= rpos {
        lemma_mod_sub_multiples_vanish(k - rpos + cap, cap);
        lemma_small_mod((k - rpos) as nat, cap as nat);
    } else {
        lemma_small_mod((k - rpos + cap) as nat, cap as nat);
    }
    if k >= newpos {
        lemma_mod_sub_multiples_vanish(k - newpos + cap, cap);
        lemma_small_mod((k - newpos) as nat, cap as nat);
    } else {
        lemma_small_mod((k - newpos + cap) as nat, cap as nat);
    }
}

proof fn lemma_ring0(rpos: int, cap: int) requires cap > 0, 0 <= rpos < cap ensures (rpos + 0) % cap == rpos { lemma_small_mod(rpos as nat, cap as nat); }

fn consume(s: &mut BufferState, n: usize)
    requires old(s).wf(),
    ensures
        final(s).wf(),
        n <= old(s).used,
        final(s).used == old(s).used - n,
        final(s).rpos as int == (old(s).rpos + n) % old(s).cap(),
        final(s).wpos == old(s).wpos,
        final(s).circ_len == old(s).circ_len,
        final(s).member_size == old(s).member_size,
        // C02: exactly the tags of the n consumed samples are discarded
        forall|k: int| final(s).tags@.dom().contains(k) <==> (old(s).tags@.dom().contains(k) && ring_dist(old(s).rpos as int, k, old(s).cap()) >= n),
        forall|k: int| final(s).tags@.dom().contains(k) ==> final(s).tags@[k] == old(s).tags@[k],
{
    if !(n <= s.used) { refuse(); }
    if n == 0 { proof { lemma_ring0(s.rpos as int, s.cap()); assert forall|k: int| s.tags@.dom().contains(k) implies ring_dist(s.rpos as int, k, s.cap()) >= 0 by { lemma_ring(s.rpos as int, 0, s.cap(), k); } } return; }
    let newpos = (s.rpos + n) % s.capacity();
    let keys: Vec<TagPos> = if newpos > s.rpos {
        s.tags.range_keys(Bnd::Included(s.rpos), Bnd::Excluded(newpos))
    } else {
        let mut t: Vec<TagPos> = s.tags.range_keys(Bnd::Included(s.rpos), Bnd::Excluded(s.capacity()));
        s.tags.range_keys_extend(&mut t, Bnd::Included(0), Bnd::Excluded(newpos));
        t
    };
    let ghost cap = s.cap();
    let ghost rpos0 = s.rpos as int;
    let ghost tags0 = s.tags@;
    proof {
        assert forall|k: int| tags0.dom().contains(k) implies
            (#[trigger] has(keys@, k) <==> ring_dist(rpos0, k, cap) < n) by {
            lemma_ring(rpos0, n as int, cap, k);
        }
        assert forall|k: int| #[trigger] has(keys@, k) implies tags0.dom().contains(k) by {}
    }
    let mut idx: usize = 0;
    while idx < keys.len()
        invariant
            idx <= keys.len(),
            s.rpos == old(s).rpos, s.wpos == old(s).wpos, s.used == old(s).used,
            s.circ_len == old(s).circ_len, s.member_size == old(s).member_size,
            forall|k: int| #[trigger] s.tags@.dom().contains(k) <==> (tags0.dom().contains(k) && !(has(keys@.take(idx as int), k))),
            forall|k: int| s.tags@.dom().contains(k) ==> s.tags@[k] == tags0[k],
        decreases keys.len() - idx
    {
        let k = keys[idx];
        s.tags.remove(&k);
        proof {
            let a = keys@.take(idx as int); let b = keys@.take(idx as int + 1);
            assert(b == a.push(keys@[idx as int]));
            assert forall|x: int| has(b, x) <==> (has(a, x) || x == k) by {
                if has(a, x) { let i = choose|i: int| 0 <= i < a.len() && a[i] == x; assert(b[i] == x); }
                if x == k { assert(b[idx as int] == x); }
                if has(b, x) { let i = choose|i: int| 0 <= i < b.len() && b[i] == x; if i < idx { assert(a[i] == x); } }
            }
        }
        idx += 1;
    }
    s.rpos = newpos;
    s.used -= n;
    proof {
        lemma_ring(rpos0, n as int, cap, 0);
        assert(s.cap() == cap);
        assert((s.rpos + s.used) % cap == (old(s).rpos + old(s).used) % cap) by {
            lemma_add_mod_noop((old(s).rpos + n) as int, (old(s).used - n) as int, cap);
            lemma_add_mod_noop(newpos as int, (old(s).used - n) as int, cap);
            lemma_mod_twice((old(s).rpos + n) as int, cap);
        }
        assert(keys@.take(keys@.len() as int) == keys@);
        assert forall|k: int| s.tags@.dom().contains(k) implies 0 <= k < cap && ring_dist(s.rpos as int, k, cap) < s.used by {
            assert(tags0.dom().contains(k));
            lemma_ring(rpos0, n as int, cap, k);
        }
        assert forall|k: int| s.tags@.dom().contains(k) <==> (tags0.dom().contains(k) && ring_dist(rpos0, k, cap) >= n) by {
            if tags0.dom().contains(k) { lemma_ring(rpos0, n as int, cap, k); }
        }
    }
}

} // verus!
fn main() {}
