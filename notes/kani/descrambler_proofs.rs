use super::*;

#[kani::proof]
fn lfsr_next_spec() {
    let mask: u64 = kani::any();
    let seed: u64 = kani::any();
    let len: u8 = kani::any();
    kani::assume(len < 64);
    let i: u8 = kani::any();
    kani::assume(i <= 1);
    let mut l = Lfsr::new(mask, seed, len);
    let r = l.next(i);
    let parity = ((seed & mask).count_ones() & 1) as u8;
    assert!(r == parity ^ i);
    assert!(l.shift_reg == (seed >> 1) | ((i as u64) << len));
    assert!(l.mask == mask && l.len == len);
}

#[kani::proof]
fn lfsr_next_total() {
    let mut l = Lfsr::new(kani::any(), kani::any(), 16);
    let _ = l.next(kani::any());
}
