use super::*;

fn crc_bitwise(data: &[u8]) -> u16 {
    let mut fcs: u16 = 0xffff;
    let mut i = 0;
    while i < data.len() {
        fcs ^= data[i] as u16;
        let mut b = 0;
        while b < 8 {
            fcs = if fcs & 1 == 1 { (fcs >> 1) ^ 0x8408 } else { fcs >> 1 };
            b += 1;
        }
        i += 1;
    }
    fcs ^ 0xffff
}

#[kani::proof]
#[kani::unwind(10)]
fn crc_len1() {
    let d: [u8; 1] = kani::any();
    assert!(calc_crc(&d) == crc_bitwise(&d));
}

#[kani::proof]
#[kani::unwind(10)]
fn crc_len2() {
    let d: [u8; 2] = kani::any();
    assert!(calc_crc(&d) == crc_bitwise(&d));
}

#[kani::proof]
fn bits2byte_all() {
    let d: [u8; 8] = kani::any();
    kani::assume(d[0] <= 1 && d[1] <= 1 && d[2] <= 1 && d[3] <= 1 && d[4] <= 1 && d[5] <= 1 && d[6] <= 1 && d[7] <= 1);
    let r = bits2byte(&d);
    let want = d[0] + 2 * d[1] + 4 * d[2] + 8 * d[3] + 16 * d[4] + 32 * d[5] + 64 * d[6] + 128 * d[7];
    assert!(r == want);
}

#[kani::proof]
#[kani::unwind(10)]
fn crc_len4() {
    let d: [u8; 4] = kani::any();
    assert!(calc_crc(&d) == crc_bitwise(&d));
}
