use vstd::prelude::*;
verus! {
pub struct Error { pub c: u8 }
pub type Result<T> = std::result::Result<T, Error>;

pub enum FsState { Absent, File(Seq<u8>), Other }
pub struct OpenOptions { pub ghost_read: bool, pub write: bool, pub append: bool, pub create: bool, pub create_new: bool, pub truncate: bool }
#[verifier::external_body]
pub struct File { _p: usize }
pub struct FileView { pub content: Seq<u8>, pub at_end: bool, pub created: bool }
impl View for File { type V = FileView; uninterp spec fn view(&self) -> FileView; }
#[verifier::external_body]
pub struct PathArg { _p: usize }
pub uninterp spec fn fs_state(p: &PathArg) -> FsState;

impl OpenOptions {
    fn read(self, b: bool) -> (r: Self) ensures r == (OpenOptions { ghost_read: b, ..self }) { OpenOptions { ghost_read: b, ..self } }
    fn write(self, b: bool) -> (r: Self) ensures r == (OpenOptions { write: b, ..self }) { OpenOptions { write: b, ..self } }
    fn append(self, b: bool) -> (r: Self) ensures r == (OpenOptions { append: b, ..self }) { OpenOptions { append: b, ..self } }
    fn create_new(self, b: bool) -> (r: Self) ensures r == (OpenOptions { create_new: b, ..self }) { OpenOptions { create_new: b, ..self } }
    // trusted: POSIX open(2) as used by std::fs::OpenOptions
    #[verifier::external_body]
    fn open(self, p: &PathArg) -> (r: Result<File>)
        ensures
            match fs_state(p) {
                FsState::Absent => (r is Ok) <==> ((self.create || self.create_new) && (self.write || self.append)),
                FsState::File(c) => (r is Ok) <==> (!self.create_new && (self.write || self.append || self.ghost_read)),
                FsState::Other => true,
            },
            r is Ok ==> match fs_state(p) {
                FsState::Absent => r->Ok_0@.content == Seq::<u8>::empty() && r->Ok_0@.created,
                FsState::File(c) => r->Ok_0@.content == (if self.truncate { Seq::<u8>::empty() } else { c }) && r->Ok_0@.at_end == self.append,
                FsState::Other => true,
            },
    { unimplemented!() }
}
impl File {
    fn options() -> (r: OpenOptions) ensures r == (OpenOptions { ghost_read: false, write: false, append: false, create: false, create_new: false, truncate: false })
    { OpenOptions { ghost_read: false, write: false, append: false, create: false, create_new: false, truncate: false } }
}
pub enum Mode { Create, Overwrite, Append }

fn open_for(filename: &PathArg, mode: Mode) -> (r: Result<File>)
    ensures
        mode is Append && fs_state(filename) is Absent ==> r is Ok,       // documented: creates if absent
        mode is Create ==> ((r is Err) <==> !(fs_state(filename) is Absent)) || fs_state(filename) is Other,
{
    Ok(match mode {
        Mode::Create => File::options()
            .read(false)
            .write(true)
            .create_new(true)
            .open(filename)?,
        Mode::Overwrite => File::options().write(true).open(filename)?,
        Mode::Append => File::options()
            .read(false)
            .append(true)
            .open(filename)?,
    })
}
}
fn main() {}
