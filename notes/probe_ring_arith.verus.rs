use vstd::prelude::*;
verus! {

pub type TagPos = usize;

struct BufferState {
    rpos: usize,        // In samples.
    wpos: usize,        // In samples.
    used: usize,        // In samples.
    circ_len: usize,    // In bytes.
    member_size: usize, // In bytes.
}

#[verifier::external_body]
fn refuse()
    ensures false
{ panic!() }

impl BufferState {
    spec fn cap(&self) -> int { (self.circ_len as int) / (self.member_size as int) }
    spec fn wf(&self) -> bool {
        &&& self.member_size > 0
        &&& self.circ_len as int % self.member_size as int == 0
        &&& 2 * self.circ_len <= usize::MAX
        &&& self.cap() > 0
        &&& self.rpos < self.cap()
        &&& self.wpos < self.cap()
        &&& self.used <= self.cap()
        &&& self.wpos as int == (self.rpos + self.used) % self.cap()
    }

    // Return write range, in samples.
    #[must_use]
    fn write_range(&self) -> (r: (usize, usize))
        requires self.wf(),
        ensures r.0 == self.wpos, r.1 == self.wpos + (self.cap() - self.used),
    {
        //eprintln!("Write range: {} {}", self.rpos, self.wpos);
        (self.wpos, self.wpos + self.free())
    }

    // Read range, in samples
    #[must_use]
    fn read_range(&self) -> (r: (usize, usize))
        requires self.wf(),
        ensures r.0 == self.rpos, r.1 == self.rpos + self.used,
    {
        (self.rpos, self.rpos + self.used)
    }

    /// Total capacity of this buffer, ignoring fullness. In samples.
    #[must_use]
    fn capacity(&self) -> (r: usize)
        requires self.member_size > 0,
        ensures r == self.cap(),
    {
        self.circ_len / self.member_size
    }

    /// How many samples fit to be written.
    #[must_use]
    fn write_capacity(&self) -> (r: usize)
        requires self.wf(),
        ensures r == self.cap() - self.used,
    {
        let (a, b) = self.write_range();
        b - a
    }

    /// Available space to be written, in samples.
    #[must_use]
    fn free(&self) -> (r: usize)
        requires self.wf(),
        ensures r == self.cap() - self.used,
    {
        self.capacity() - self.used
    }
}

fn consume(s: &mut BufferState, n: usize)
    requires old(s).wf(),
    ensures
        final(s).wf(),
        n <= old(s).used,
        final(s).used == old(s).used - n,
        final(s).rpos as int == (old(s).rpos + n) % old(s).cap(),
        final(s).wpos == old(s).wpos,
        final(s).circ_len == old(s).circ_len,
        final(s).member_size == old(s).member_size,
{
    if !(n <= s.used) { refuse(); }
    let newpos = (s.rpos + n) % s.capacity();
    proof {
        vstd::arithmetic::div_mod::lemma_mod_bound((s.rpos + n) as int, s.cap());
        // wpos == (rpos+used)%cap ; new: (newpos + used - n) % cap
        vstd::arithmetic::div_mod::lemma_add_mod_noop((s.rpos + n) as int, (s.used - n) as int, s.cap());
        vstd::arithmetic::div_mod::lemma_mod_twice((s.rpos + n) as int, s.cap());
    }
    s.rpos = newpos;
    s.used -= n;
    proof {
        let c = s.cap();
        assert(s.cap() == old(s).cap());
        assert((s.rpos + s.used) % c == (old(s).rpos + old(s).used) % c) by {
            vstd::arithmetic::div_mod::lemma_add_mod_noop((old(s).rpos + n) as int, (old(s).used - n) as int, c);
            vstd::arithmetic::div_mod::lemma_add_mod_noop(newpos as int, (old(s).used - n) as int, c);
            vstd::arithmetic::div_mod::lemma_mod_twice((old(s).rpos + n) as int, c);
        }
    }
}

} // verus!
fn main() {}
