#!/bin/sh
# Offline setup: nothing to build (vx is Python 3 stdlib only); check that the tools are present.
set -e
cd "$(dirname "$0")"
command -v verus >/dev/null
command -v python3 >/dev/null
command -v cargo >/dev/null
mkdir -p build evidence replay
python3 vx/mkmanifest.py >/dev/null
echo "setup ok"
