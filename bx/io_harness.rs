// bx io harness: BOUNDED checks of byte-oriented / file / socket blocks on the real crate (never counted as proof).
// Stand-in when the Verus unit of one of these blocks cannot follow a restructured function, and thorough-tier cross-check.
//   rtlsdr : every byte value as I and as Q, drip-fed                        -> ((b - 127) * 0.008) bit-exact        (C10, C08)
//   fsink  : FileSink mode table on real files (absent / empty / short / long) and content after a run          (C17)
//   s2pdu  : StreamToPdu one-shot vs drip-fed, dense adversarial burst tags (inside the tail, duplicates)        (C08, C15)
//   auenc  : AuEncode header + big-endian PCM16 for every schedule, incl. encoder called before any input       (C14, C09)
//   il2p   : Il2pDeframer one-shot vs drip-fed on random bits with sync tags (header count), no panic               (C08, C15)
//   tcp    : TcpSource over a loopback socket with exact control of the read segmentation                      (C14)
use rustradio::block::{Block, BlockRet};
use rustradio::blocks::*;
use rustradio::stream::{new_stream, ReadStream, Tag, TagValue, WriteStream};
use rustradio::{Complex, Float};

struct Rng(u64);
impl Rng {
    fn next(&mut self) -> u64 {
        self.0 ^= self.0 << 13;
        self.0 ^= self.0 >> 7;
        self.0 ^= self.0 << 17;
        self.0
    }
    fn below(&mut self, n: usize) -> usize {
        (self.next() % (n as u64).max(1)) as usize
    }
    fn pick(&mut self, xs: &[usize]) -> usize {
        xs[self.below(xs.len())]
    }
}
struct Fail {
    target: &'static str,
    prop: &'static str,
    label: String,
    what: String,
    seed: u64,
}
impl Fail {
    fn print(&self) {
        println!(
            "BXFAIL {{\"target\":\"{}\",\"property\":\"{}\",\"label\":\"{}\",\"what\":\"{}\",\"seed\":{}}}",
            self.target, self.prop, self.label, self.what.replace('"', "'").replace('\\', "/"), self.seed
        );
    }
}
fn fail(target: &'static str, prop: &'static str, label: &str, what: String, seed: u64) -> Fail {
    Fail { target, prop, label: format!("{prop}.{target}.{label}"), what, seed }
}
fn feed<T: Copy>(w: &WriteStream<T>, data: &[T], pos: &mut usize, k: usize, tags: &dyn Fn(usize) -> Vec<(String, TagValue)>) -> usize {
    let mut wb = w.write_buf().unwrap();
    let n = k.min(wb.len()).min(data.len() - *pos);
    wb.fill_from_slice(&data[*pos..*pos + n]);
    let mut ts = vec![];
    for i in 0..n {
        for (k, v) in tags(*pos + i) {
            ts.push(Tag::new(i, k, v));
        }
    }
    wb.produce(n, &ts);
    *pos += n;
    n
}
fn no_tags(_: usize) -> Vec<(String, TagValue)> {
    vec![]
}
fn drain<T: Copy>(r: &ReadStream<T>, j: usize, got: &mut Vec<T>) -> usize {
    let (rb, _) = r.read_buf().unwrap();
    let n = j.min(rb.len());
    got.extend_from_slice(&rb.slice()[..n]);
    rb.consume(n);
    n
}
/// call work(), map panics and errors
fn work(target: &'static str, seed: u64, b: &mut dyn Block) -> Result<u8, Fail> {
    let r = std::panic::catch_unwind(std::panic::AssertUnwindSafe(|| match b.work() {
        Ok(BlockRet::Again) => 0u8,
        Ok(BlockRet::WaitForStream(_, _)) => 1,
        Ok(BlockRet::EOF) => 2,
        Ok(_) => 3,
        Err(_) => 4,
    }));
    r.map_err(|_| fail(target, "C15", "work-does-not-panic", "work() panicked".into(), seed))
}

// ------------------------------------------------------------------------------------------------ rtlsdr
fn run_rtlsdr(seed: u64) -> Result<u64, Fail> {
    let t = "rtlsdr";
    let mut rng = Rng(seed * 7919 + 11);
    // every byte value as I and as Q, then random pairs
    let mut data: Vec<u8> = vec![];
    for b in 0..=255u8 {
        data.push(b);
        data.push(255 - b);
    }
    for _ in 0..3000 {
        data.push(rng.below(256) as u8);
    }
    if data.len() % 2 == 1 {
        data.pop();
    }
    let want: Vec<Complex> = data.chunks_exact(2).map(|e| Complex::new((e[0] as Float - 127.0) * 0.008, (e[1] as Float - 127.0) * 0.008)).collect();
    let (w, r) = new_stream::<u8>();
    let (mut b, o) = RtlSdrDecode::new(r);
    let mut got: Vec<Complex> = vec![];
    let mut pos = 0;
    let mut works = 0;
    let mut idle = 0;
    while idle < 4 {
        let fed = feed(&w, &data, &mut pos, rng.pick(&[0, 1, 1, 2, 3, 5, 64, 1000]), &no_tags);
        let v = work(t, seed, &mut b)?;
        works += 1;
        let d = drain(&o, rng.pick(&[0, 1, 2, 1000]), &mut got);
        idle = if pos == data.len() && fed == 0 && d == 0 && v != 0 { idle + 1 } else { 0 };
    }
    drain(&o, usize::MAX, &mut got);
    for (i, (g, x)) in got.iter().zip(want.iter()).enumerate() {
        if g.re.to_bits() != x.re.to_bits() || g.im.to_bits() != x.im.to_bits() {
            return Err(fail(t, "C10", "byte-pair-to-iq", format!("output sample {i} (bytes {}, {}) is {:?}, specified {:?}", data[2 * i], data[2 * i + 1], g, x), seed));
        }
    }
    if got.len() != want.len() {
        return Err(fail(t, "C10", "byte-pair-to-iq", format!("{} output samples for {} input bytes", got.len(), data.len()), seed));
    }
    Ok(works)
}

// ------------------------------------------------------------------------------------------------ fsink
fn run_fsink(seed: u64) -> Result<u64, Fail> {
    use rustradio::file_sink::Mode;
    let t = "fsink";
    let dir = std::env::temp_dir().join(format!("verif_bx_fsink_{}_{}", std::process::id(), seed));
    let _ = std::fs::remove_dir_all(&dir);
    std::fs::create_dir_all(&dir).unwrap();
    let data: Vec<u8> = (0..10u8).map(|i| 0x40 + i).collect();
    let mut n = 0;
    let mut res: Result<(), Fail> = Ok(());
    'outer: for (mi, mname) in ["create", "overwrite", "append"].iter().enumerate() {
        for (ii, init) in [None, Some(vec![]), Some(vec![1u8, 2, 3]), Some((0..100u8).collect::<Vec<u8>>())].iter().enumerate() {
            let path = dir.join(format!("f_{mi}_{ii}"));
            if let Some(c) = init {
                std::fs::write(&path, c).unwrap();
            }
            let mode = match mi { 0 => Mode::Create, 1 => Mode::Overwrite, _ => Mode::Append };
            let (w, r) = new_stream::<u8>();
            let sink = FileSink::new(r, &path, mode);
            n += 1;
            let desc = format!("mode {mname}, file initially {}", match init { None => "absent".to_string(), Some(c) => format!("{} bytes", c.len()) });
            match (mi, init, sink) {
                (0, Some(c), Ok(_)) => { res = Err(fail(t, "C17", "create-refuses-an-existing-file", format!("{desc}: opened instead of failing"), seed)); let _ = c; break 'outer; }
                (0, Some(c), Err(_)) => {
                    let now = std::fs::read(&path).unwrap();
                    if &now != c { res = Err(fail(t, "C17", "create-refuses-an-existing-file", format!("{desc}: refused, but the file now holds {} bytes", now.len()), seed)); break 'outer; }
                }
                (_, _, Err(e)) => { res = Err(fail(t, "C17", "mode-table", format!("{desc}: open failed: {e}"), seed)); break 'outer; }
                (_, _, Ok(mut sink)) => {
                    let mut pos = 0;
                    while pos < data.len() {
                        feed(&w, &data, &mut pos, 3, &no_tags);
                        if let Err(f) = work(t, seed, &mut sink) { res = Err(f); break 'outer; }
                    }
                    let _ = work(t, seed, &mut sink);
                    drop(sink);
                    let now = std::fs::read(&path).unwrap();
                    let mut want = match (mi, init) { (2, Some(c)) => c.clone(), _ => vec![] };
                    want.extend(&data);
                    if now != want {
                        res = Err(fail(t, "C17", "mode-table", format!("{desc}: after writing {} bytes the file holds {} bytes {:?}.., specified {} bytes {:?}..", data.len(), now.len(), &now[..now.len().min(6)], want.len(), &want[..6]), seed));
                        break 'outer;
                    }
                }
            }
        }
    }
    let _ = std::fs::remove_dir_all(&dir);
    res.map(|_| n)
}

// ------------------------------------------------------------------------------------------------ s2pdu
fn run_s2pdu(seed: u64) -> Result<u64, Fail> {
    let t = "s2pdu";
    let mut rng = Rng(seed * 104729 + 5);
    let n = 6000;
    let data: Vec<u8> = (0..n).map(|i| (i % 251) as u8).collect();
    let tail = rng.pick(&[0, 1, 3, 10]);
    let max_size = rng.pick(&[5, 50, 400]);
    // dense burst tags: starts, ends, ends followed by tags inside the tail, duplicates on one sample, other keys
    let mut marks: std::collections::BTreeMap<usize, Vec<(String, TagValue)>> = Default::default();
    let mut i = 0;
    while i < n {
        i += 1 + rng.below(40);
        let k = rng.below(10);
        let e = marks.entry(i).or_default();
        match k {
            0..=3 => e.push(("burst".into(), TagValue::Bool(true))),
            4..=6 => {
                e.push(("burst".into(), TagValue::Bool(false)));
                if rng.below(2) == 0 {
                    // something inside the tail countdown
                    let j = i + 1 + rng.below(tail + 1);
                    marks.entry(j).or_default().push(("burst".into(), TagValue::Bool(rng.below(2) == 0)));
                }
            }
            7 => { e.push(("burst".into(), TagValue::Bool(true))); e.push(("burst".into(), TagValue::Bool(false))); }
            8 => e.push(("other".into(), TagValue::Bool(true))),
            _ => e.push(("burst".into(), TagValue::U64(1))),
        }
    }
    let tagf = |i: usize| marks.get(&i).cloned().unwrap_or_default();
    let mut outs: Vec<Vec<Vec<u8>>> = vec![];
    let mut works = 0;
    for drip in [false, true] {
        let (w, r) = new_stream::<u8>();
        let (mut b, o) = StreamToPdu::new(r, "burst", max_size, tail);
        let mut pos = 0;
        let mut pdus = vec![];
        let mut idle = 0;
        while idle < 3 {
            let fed = feed(&w, &data, &mut pos, if drip { rng.pick(&[0, 1, 2, 3, 7, 50]) } else { usize::MAX }, &tagf);
            let v = work(t, seed, &mut b)?;
            works += 1;
            while let Some((p, _)) = o.pop() {
                pdus.push(p);
            }
            idle = if pos == data.len() && fed == 0 && v != 0 { idle + 1 } else { 0 };
        }
        outs.push(pdus);
    }
    if outs[0] != outs[1] {
        let k = outs[0].iter().zip(outs[1].iter()).position(|(a, b)| a != b).unwrap_or(outs[0].len().min(outs[1].len()));
        return Err(fail(t, "C08", "pdus-independent-of-chunking", format!("tail {tail} max_size {max_size}: {} PDUs one-shot, {} drip-fed; first difference at PDU {k}: lengths {:?} vs {:?}", outs[0].len(), outs[1].len(), outs[0].get(k).map(|p| p.len()), outs[1].get(k).map(|p| p.len())), seed));
    }
    Ok(works)
}

// ------------------------------------------------------------------------------------------------ auenc
fn run_auenc(seed: u64) -> Result<u64, Fail> {
    let t = "auenc";
    let mut rng = Rng(seed * 1299709 + 1);
    let n = 3000;
    let data: Vec<Float> = (0..n).map(|i| (((i * 37) % 2001) as Float - 1000.0) / 1000.0).collect();
    let mut want: Vec<u8> = vec![];
    want.extend(0x2e736e64u32.to_be_bytes());
    want.extend(28u32.to_be_bytes());
    want.extend(0xffffffffu32.to_be_bytes());
    want.extend(3u32.to_be_bytes());
    want.extend(8000u32.to_be_bytes());
    want.extend(1u32.to_be_bytes());
    want.extend([0u8, 0, 0, 0]);
    for x in &data {
        want.extend(((x * i16::MAX as Float) as i16).to_be_bytes());
    }
    let (w, r) = new_stream::<Float>();
    let (mut b, o) = AuEncode::new(r, rustradio::au::Encoding::Pcm16, 8000, 1);
    let mut got: Vec<u8> = vec![];
    let mut pos = 0;
    let mut works = 0;
    let mut idle = 0;
    // some schedules run the encoder before any input exists (multi-threaded runner, or encoder added before its source)
    let early = rng.below(2) == 0;
    if early {
        for _ in 0..3 {
            work(t, seed, &mut b)?;
            works += 1;
        }
    }
    while idle < 4 {
        let fed = feed(&w, &data, &mut pos, rng.pick(&[0, 1, 2, 5, 100, 4000]), &no_tags);
        let v = work(t, seed, &mut b)?;
        works += 1;
        let d = drain(&o, rng.pick(&[0, 1, 3, 1000, 100000]), &mut got);
        idle = if pos == data.len() && fed == 0 && d == 0 && v != 0 { idle + 1 } else { 0 };
    }
    drain(&o, usize::MAX, &mut got);
    if got != want {
        let k = got.iter().zip(want.iter()).position(|(a, b)| a != b).unwrap_or(got.len().min(want.len()));
        return Err(fail(t, "C14", "header-then-big-endian-pcm16", format!("encoder run before input: {early}; {} bytes out, {} specified; first difference at byte {k}: {:?} vs {:?}", got.len(), want.len(), got.get(k), want.get(k)), seed));
    }
    Ok(works)
}

// ------------------------------------------------------------------------------------------------ tcp
fn run_tcp(seed: u64) -> Result<u64, Fail> {
    use std::io::Write;
    let t = "tcp";
    let mut rng = Rng(seed * 15487469 + 3);
    let nsamp = 40;
    let vals: Vec<Float> = (0..nsamp).map(|i| i as Float * 1.5 - 7.25).collect();
    let bytes: Vec<u8> = vals.iter().flat_map(|v| v.to_le_bytes()).collect();
    // segmentation: sizes 1..=9, biased towards "exactly the rest of the current sample"
    let mut segs = vec![];
    let mut p = 0;
    while p < bytes.len() {
        let rest = 4 - p % 4;
        let k = match rng.below(4) { 0 => rest, 1 => 1, _ => 1 + rng.below(9) }.min(bytes.len() - p);
        segs.push(k);
        p += k;
    }
    let listener = match std::net::TcpListener::bind("127.0.0.1:0") {
        Ok(l) => l,
        Err(_) => return Ok(0), // no loopback in this sandbox: nothing explored (reported as 0 work calls)
    };
    let port = listener.local_addr().unwrap().port();
    // the server writes one segment, then waits until the client has read it: every read() returns exactly one segment
    let (go_tx, go_rx) = std::sync::mpsc::channel::<()>();
    let segs2 = segs.clone();
    let bytes2 = bytes.clone();
    let srv = std::thread::spawn(move || {
        let (mut s, _) = listener.accept().unwrap();
        s.set_nodelay(true).unwrap();
        let mut p = 0;
        for k in segs2 {
            if go_rx.recv().is_err() { return; }
            s.write_all(&bytes2[p..p + k]).unwrap();
            s.flush().unwrap();
            p += k;
        }
        let _ = go_rx.recv();
        // close
    });
    let (mut b, o): (TcpSource<Float>, _) = TcpSource::new("127.0.0.1", port).map_err(|e| fail(t, "C14", "connect", format!("{e}"), seed))?;
    let mut got: Vec<Float> = vec![];
    let mut works = 0;
    let mut res = Ok(());
    for _ in 0..segs.len() + 1 {
        if go_tx.send(()).is_err() { break; }
        // give the segment time to arrive; read() blocks until it does anyway
        let v = match work(t, seed, &mut b) { Ok(v) => v, Err(f) => { res = Err(f); break; } };
        works += 1;
        drain(&o, usize::MAX, &mut got);
        if v == 2 { break; }
        if v == 4 { res = Err(fail(t, "C15", "never-errs-on-received-bytes", "work() returned Err".into(), seed)); break; }
    }
    drop(go_tx);
    let _ = srv.join();
    res?;
    let same = got.len() == vals.len() && got.iter().zip(vals.iter()).all(|(a, b)| a.to_bits() == b.to_bits());
    if !same {
        return Err(fail(t, "C14", "samples-reassembled-for-every-read-segmentation", format!("read sizes {:?}: {} samples delivered by EOF, {} sent; first difference at {:?}", segs, got.len(), vals.len(), got.iter().zip(vals.iter()).position(|(a, b)| a.to_bits() != b.to_bits())), seed));
    }
    Ok(works)
}

// ------------------------------------------------------------------------------------------------ il2p
fn run_il2p(seed: u64) -> Result<u64, Fail> {
    let t = "il2p";
    let mut rng = Rng(seed * 2750159 + 9);
    let n = 4000;
    // bits only: a byte > 1 makes the LFSR assert (known finding F11)
    let data: Vec<u8> = (0..n).map(|_| (rng.next() & 1) as u8).collect();
    // sync tags: sparse, sometimes closer together than one header (120 bits), sometimes with a foreign key
    let mut marks: std::collections::BTreeMap<usize, Vec<(String, TagValue)>> = Default::default();
    let mut i = 0;
    while i < n {
        i += rng.pick(&[1, 7, 60, 119, 120, 121, 300, 500]);
        let key = if rng.below(6) == 0 { "other" } else { "sync" };
        marks.entry(i).or_default().push((key.into(), TagValue::Bool(true)));
    }
    let tagf = |i: usize| marks.get(&i).cloned().unwrap_or_default();
    let mut counts = vec![];
    let mut works = 0;
    for drip in [false, true] {
        let (w, r) = new_stream::<u8>();
        let (mut b, o) = Il2pDeframer::new(r);
        let mut pos = 0;
        let mut pdus = 0usize;
        let mut idle = 0;
        while idle < 3 {
            let fed = feed(&w, &data, &mut pos, if drip { rng.pick(&[0, 1, 2, 5, 40, 119, 121]) } else { usize::MAX }, &tagf);
            let v = work(t, seed, &mut b)?;
            works += 1;
            while o.pop().is_some() {
                pdus += 1;
            }
            idle = if pos == data.len() && fed == 0 && v != 0 { idle + 1 } else { 0 };
        }
        counts.push(pdus);
    }
    if counts[0] != counts[1] {
        return Err(fail(t, "C08", "headers-independent-of-chunking", format!("{} headers decoded one-shot, {} drip-fed, same bits and sync tags", counts[0], counts[1]), seed));
    }
    Ok(works)
}

// ------------------------------------------------------------------------------------------------ wpcr
fn run_wpcr(seed: u64) -> Result<u64, Fail> {
    use rustradio::stream::new_nocopy_stream;
    let t = "wpcr";
    let mut bursts: Vec<Vec<Float>> = vec![];
    // every burst of length 0..=10 over {+1, -1}
    for n in 0..=10usize {
        for bits in 0..(1u32 << n) {
            bursts.push((0..n).map(|i| if (bits >> i) & 1 == 1 { 1.0 } else { -1.0 }).collect());
        }
    }
    // periodic bursts (transition spectrum peaking anywhere up to Nyquist), a few phases and lengths
    for period in 2..=9usize {
        for len in [12usize, 13, 40, 64, 100, 101, 250, 257] {
            for phase in 0..period.min(3) {
                bursts.push((0..len).map(|i| if ((i + phase) % period) * 2 < period { 1.0 } else { -1.0 }).collect());
            }
        }
    }
    // degenerate values
    let mut rng = Rng(seed * 31 + 7);
    for _ in 0..50 {
        let n = rng.below(40);
        bursts.push((0..n).map(|_| match rng.below(8) { 0 => Float::NAN, 1 => Float::INFINITY, 2 => Float::NEG_INFINITY, 3 => 0.0, _ => rng.below(2001) as Float / 1000.0 - 1.0 }).collect());
    }
    let mut works = 0;
    for burst in &bursts {
        for which in 0..2 {
            let (tx, rx) = new_nocopy_stream::<Vec<Float>>();
            tx.push(burst.clone(), &[]);
            let r = if which == 0 {
                let (mut b, _o) = WpcrBuilder::new(rx).build();
                std::panic::catch_unwind(std::panic::AssertUnwindSafe(|| b.work().is_ok()))
            } else {
                let (mut b, _o) = Midpointer::new(rx);
                std::panic::catch_unwind(std::panic::AssertUnwindSafe(|| b.work().is_ok()))
            };
            works += 1;
            if !matches!(r, Ok(true)) {
                let shown: Vec<String> = burst.iter().take(24).map(|x| format!("{x}")).collect();
                return Err(fail(t, "C15", "no-panic-on-burst-content", format!("{} panicked or failed on the burst of {} samples [{}{}]", if which == 0 { "Wpcr::work" } else { "Midpointer::work" }, burst.len(), shown.join(","), if burst.len() > 24 { ",.." } else { "" }), seed));
            }
        }
    }
    Ok(works)
}

#[test]
fn bx_io() {
    std::panic::set_hook(Box::new(|i| {
        if let Some(l) = i.location() {
            if l.file().starts_with("tests/") {
                eprintln!("harness panic: {i}");
            }
        }
    }));
    let targets = std::env::var("BX_TARGETS").unwrap_or_else(|_| "rtlsdr,fsink,s2pdu,auenc,tcp,wpcr,il2p".into());
    let n: u64 = std::env::var("BX_N").ok().and_then(|s| s.parse().ok()).unwrap_or(40);
    let base: u64 = std::env::var("VERIF_SEED").ok().and_then(|s| s.parse().ok()).unwrap_or(1);
    let mut failed = false;
    for t in targets.split(',') {
        let mut runs = 0u64;
        let mut works = 0u64;
        let mut res: Result<(), Fail> = Ok(());
        for i in 0..n {
            let seed = base * 1000 + i;
            let r = match t {
                "rtlsdr" => run_rtlsdr(seed),
                "fsink" => { if i > 0 { break; } run_fsink(seed) }
                "s2pdu" => run_s2pdu(seed),
                "auenc" => run_auenc(seed),
                "tcp" => run_tcp(seed),
                "wpcr" => { if i > 0 { break; } run_wpcr(seed) }
                "il2p" => run_il2p(seed),
                _ => Ok(0),
            };
            runs += 1;
            match r {
                Ok(w) => works += w,
                Err(f) => { res = Err(f); break; }
            }
        }
        println!("BXSTAT {{\"target\":\"{}\",\"schedules\":{},\"work_calls\":{}}}", t, runs, works);
        if let Err(f) = res {
            f.print();
            failed = true;
        }
    }
    if failed {
        panic!("bounded io check failed");
    }
}
