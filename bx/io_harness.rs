// bx io harness: BOUNDED checks of byte-oriented / file / socket blocks on the real crate (never counted as proof).
// Stand-in when the Verus unit of one of these blocks cannot follow a restructured function, and thorough-tier cross-check.
//   rtlsdr : every byte value as I and as Q, drip-fed                        -> ((b - 127) * 0.008) bit-exact        (C10, C08)
//   fsink  : FileSink mode table on real files (absent / empty / short / long) and content after a run          (C17)
//   s2pdu  : StreamToPdu one-shot vs drip-fed, dense adversarial burst tags (inside the tail, duplicates)        (C08, C15)
//   auenc  : AuEncode header + big-endian PCM16 for every schedule, incl. encoder called before any input       (C14, C09)
//   il2p   : Il2pDeframer one-shot vs drip-fed on random bits with sync tags (header count), no panic               (C08, C15)
//   tcp    : TcpSource over a loopback socket with exact control of the read segmentation                      (C14)
use rustradio::block::{Block, BlockRet};
use rustradio::blocks::*;
use rustradio::stream::{new_stream, ReadStream, Tag, TagValue, WriteStream};
use rustradio::{Complex, Float};

struct Rng(u64);
impl Rng {
    fn next(&mut self) -> u64 {
        self.0 ^= self.0 << 13;
        self.0 ^= self.0 >> 7;
        self.0 ^= self.0 << 17;
        self.0
    }
    fn below(&mut self, n: usize) -> usize {
        (self.next() % (n as u64).max(1)) as usize
    }
    fn pick(&mut self, xs: &[usize]) -> usize {
        xs[self.below(xs.len())]
    }
}
struct Fail {
    target: &'static str,
    prop: &'static str,
    label: String,
    what: String,
    seed: u64,
}
impl Fail {
    fn print(&self) {
        println!(
            "BXFAIL {{\"target\":\"{}\",\"property\":\"{}\",\"label\":\"{}\",\"what\":\"{}\",\"seed\":{}}}",
            self.target, self.prop, self.label, self.what.replace('"', "'").replace('\\', "/"), self.seed
        );
    }
}
fn fail(target: &'static str, prop: &'static str, label: &str, what: String, seed: u64) -> Fail {
    Fail { target, prop, label: format!("{prop}.{target}.{label}"), what, seed }
}
fn feed<T: Copy>(w: &WriteStream<T>, data: &[T], pos: &mut usize, k: usize, tags: &dyn Fn(usize) -> Vec<(String, TagValue)>) -> usize {
    let mut wb = w.write_buf().unwrap();
    let n = k.min(wb.len()).min(data.len() - *pos);
    wb.fill_from_slice(&data[*pos..*pos + n]);
    let mut ts = vec![];
    for i in 0..n {
        for (k, v) in tags(*pos + i) {
            ts.push(Tag::new(i, k, v));
        }
    }
    wb.produce(n, &ts);
    *pos += n;
    n
}
fn no_tags(_: usize) -> Vec<(String, TagValue)> {
    vec![]
}
fn drain<T: Copy>(r: &ReadStream<T>, j: usize, got: &mut Vec<T>) -> usize {
    let (rb, _) = r.read_buf().unwrap();
    let n = j.min(rb.len());
    got.extend_from_slice(&rb.slice()[..n]);
    rb.consume(n);
    n
}
/// call work(), map panics and errors
static WAIT_SEEN: std::sync::Mutex<std::collections::BTreeMap<String, u32>> = std::sync::Mutex::new(std::collections::BTreeMap::new());

fn work(target: &'static str, seed: u64, b: &mut dyn Block) -> Result<u8, Fail> {
    let r = std::panic::catch_unwind(std::panic::AssertUnwindSafe(|| match b.work() {
        Ok(BlockRet::Again) => 0u8,
        Ok(BlockRet::WaitForStream(w, n)) => {
            // C09: a wait that the named stream already satisfies is untruthful (the scheduler would spin).  Timing probe (a
            // genuine wait takes the stream's 100 ms timeout; a stream whose other end is gone answers at once and is not
            // probed), twice per (target, amount); not for targets fed by another thread.
            // (sources without an input -- sigmf, fsrc, misc -- use `wait for 1 free sample` as "call me again" while their
            // file position or repetition count moves on: state changes the harness cannot see; they are not probed)
            let due = !matches!(target, "tcp" | "sigmf" | "fsrc" | "misc") && {
                let mut m = WAIT_SEEN.lock().unwrap();
                let c = m.entry(format!("{target}/{n}")).or_insert(0);
                *c += 1;
                *c <= 2
            };
            if due && !w.closed() {
                let t = std::time::Instant::now();
                let _ = w.wait(n);
                if t.elapsed() < std::time::Duration::from_millis(40) && !w.closed() { 5 } else { 1 }
            } else {
                1
            }
        }
        Ok(BlockRet::EOF) => 2,
        Ok(_) => 3,
        Err(_) => 4,
    }));
    match r {
        Err(_) => Err(fail(target, "C15", "work-does-not-panic", "work() panicked".into(), seed)),
        Ok(5) => {
            // an already satisfied wait is harmless if the following call gets somewhere (C09: "providing what it asked for
            // on that stream alone lets a following call make progress"); asked again with nothing changed, the same
            // already satisfied wait means the block spins
            let again = std::panic::catch_unwind(std::panic::AssertUnwindSafe(|| match b.work() {
                Ok(BlockRet::Again) => 0u8,
                Ok(BlockRet::WaitForStream(w, n)) => {
                    let t = std::time::Instant::now();
                    let _ = w.wait(n);
                    if t.elapsed() < std::time::Duration::from_millis(40) && !w.closed() { 5 } else { 1 }
                }
                Ok(BlockRet::EOF) => 2,
                Ok(_) => 3,
                Err(_) => 4,
            }));
            match again {
                Err(_) => Err(fail(target, "C15", "work-does-not-panic", "work() panicked".into(), seed)),
                Ok(5) => Err(fail(target, "C09", "wait-names-the-blocking-stream", "two calls in a row, nothing changed in between, both reported a wait that the stream they name already satisfies (the wait returns at once): the block spins".into(), seed)),
                Ok(v) => Ok(v),
            }
        }
        Ok(v) => Ok(v),
    }
}

// ------------------------------------------------------------------------------------------------ rtlsdr
fn run_rtlsdr(seed: u64) -> Result<u64, Fail> {
    let t = "rtlsdr";
    let mut rng = Rng(seed * 7919 + 11);
    // every byte value as I and as Q, then random pairs
    let mut data: Vec<u8> = vec![];
    for b in 0..=255u8 {
        data.push(b);
        data.push(255 - b);
    }
    for _ in 0..3000 {
        data.push(rng.below(256) as u8);
    }
    if data.len() % 2 == 1 {
        data.pop();
    }
    let want: Vec<Complex> = data.chunks_exact(2).map(|e| Complex::new((e[0] as Float - 127.0) * 0.008, (e[1] as Float - 127.0) * 0.008)).collect();
    let (w, r) = new_stream::<u8>();
    let (mut b, o) = RtlSdrDecode::new(r);
    let mut got: Vec<Complex> = vec![];
    let mut pos = 0;
    let mut works = 0;
    let mut idle = 0;
    while idle < 4 {
        let fed = feed(&w, &data, &mut pos, rng.pick(&[0, 1, 1, 2, 3, 5, 64, 1000]), &no_tags);
        let v = work(t, seed, &mut b)?;
        works += 1;
        let d = drain(&o, rng.pick(&[0, 1, 2, 1000]), &mut got);
        idle = if pos == data.len() && fed == 0 && d == 0 && v != 0 { idle + 1 } else { 0 };
    }
    drain(&o, usize::MAX, &mut got);
    for (i, (g, x)) in got.iter().zip(want.iter()).enumerate() {
        if g.re.to_bits() != x.re.to_bits() || g.im.to_bits() != x.im.to_bits() {
            return Err(fail(t, "C10", "byte-pair-to-iq", format!("output sample {i} (bytes {}, {}) is {:?}, specified {:?}", data[2 * i], data[2 * i + 1], g, x), seed));
        }
    }
    if got.len() != want.len() {
        return Err(fail(t, "C10", "byte-pair-to-iq", format!("{} output samples for {} input bytes", got.len(), data.len()), seed));
    }
    Ok(works)
}

// ------------------------------------------------------------------------------------------------ fsink
fn run_fsink(seed: u64) -> Result<u64, Fail> {
    use rustradio::file_sink::Mode;
    let t = "fsink";
    let dir = std::env::temp_dir().join(format!("verif_bx_fsink_{}_{}", std::process::id(), seed));
    let _ = std::fs::remove_dir_all(&dir);
    std::fs::create_dir_all(&dir).unwrap();
    let data: Vec<u8> = (0..10u8).map(|i| 0x40 + i).collect();
    let mut n = 0;
    let mut res: Result<(), Fail> = Ok(());
    'outer: for (mi, mname) in ["create", "overwrite", "append"].iter().enumerate() {
        for (ii, init) in [None, Some(vec![]), Some(vec![1u8, 2, 3]), Some((0..100u8).collect::<Vec<u8>>())].iter().enumerate() {
            let path = dir.join(format!("f_{mi}_{ii}"));
            if let Some(c) = init {
                std::fs::write(&path, c).unwrap();
            }
            let mode = match mi { 0 => Mode::Create, 1 => Mode::Overwrite, _ => Mode::Append };
            let (w, r) = new_stream::<u8>();
            let sink = FileSink::new(r, &path, mode);
            n += 1;
            let desc = format!("mode {mname}, file initially {}", match init { None => "absent".to_string(), Some(c) => format!("{} bytes", c.len()) });
            match (mi, init, sink) {
                (0, Some(c), Ok(_)) => { res = Err(fail(t, "C17", "create-refuses-an-existing-file", format!("{desc}: opened instead of failing"), seed)); let _ = c; break 'outer; }
                (0, Some(c), Err(_)) => {
                    let now = std::fs::read(&path).unwrap();
                    if &now != c { res = Err(fail(t, "C17", "create-refuses-an-existing-file", format!("{desc}: refused, but the file now holds {} bytes", now.len()), seed)); break 'outer; }
                }
                (_, _, Err(e)) => { res = Err(fail(t, "C17+C14", "mode-table", format!("{desc}: open failed: {e}"), seed)); break 'outer; }
                (_, _, Ok(mut sink)) => {
                    let mut pos = 0;
                    let base: Vec<u8> = match (mi, init) { (2, Some(c)) => c.clone(), _ => vec![] };
                    while pos < data.len() {
                        feed(&w, &data, &mut pos, 3, &no_tags);
                        if let Err(f) = work(t, seed, &mut sink) { res = Err(f); break 'outer; }
                        // C17: whatever the sink has consumed when work() returns is in the file already
                        let consumed = pos - (1_024_000 * 4 - w.free());
                        let on_disk = std::fs::read(&path).unwrap();
                        let mut must = base.clone();
                        must.extend(&data[..consumed]);
                        if on_disk.len() < must.len() || on_disk[..must.len()] != must[..] {
                            res = Err(fail(t, "C17+C14", "consumed-means-on-disk", format!("{desc}: work() returned with {consumed} samples consumed but the file holds {} of the {} bytes that must be there", on_disk.len(), must.len()), seed));
                            break 'outer;
                        }
                    }
                    let _ = work(t, seed, &mut sink);
                    drop(sink);
                    let now = std::fs::read(&path).unwrap();
                    let mut want = match (mi, init) { (2, Some(c)) => c.clone(), _ => vec![] };
                    want.extend(&data);
                    if now != want {
                        res = Err(fail(t, "C17+C14", "mode-table", format!("{desc}: after writing {} bytes the file holds {} bytes {:?}.., specified {} bytes {:?}..", data.len(), now.len(), &now[..now.len().min(6)], want.len(), &want[..6]), seed));
                        break 'outer;
                    }
                }
            }
        }
    }
    // the packet sink has its own copy of the mode table
    if res.is_ok() {
        'nc: for (mi, mname) in ["create", "overwrite", "append"].iter().enumerate() {
            for (ii, init) in [None, Some(vec![]), Some(vec![1u8, 2, 3]), Some((0..100u8).collect::<Vec<u8>>())].iter().enumerate() {
                let path = dir.join(format!("nc_{mi}_{ii}"));
                if let Some(c) = init {
                    std::fs::write(&path, c).unwrap();
                }
                let mode = match mi { 0 => Mode::Create, 1 => Mode::Overwrite, _ => Mode::Append };
                let (w, r) = rustradio::stream::new_nocopy_stream::<u32>();
                let sink = rustradio::file_sink::NoCopyFileSink::new(r, &path, mode);
                n += 1;
                let desc = format!("packet sink, mode {mname}, file initially {}", match init { None => "absent".to_string(), Some(c) => format!("{} bytes", c.len()) });
                match (mi, init, sink) {
                    (0, Some(_), Ok(_)) => { res = Err(fail(t, "C17", "create-refuses-an-existing-file", format!("{desc}: opened instead of failing"), seed)); break 'nc; }
                    (0, Some(c), Err(_)) => {
                        let now = std::fs::read(&path).unwrap();
                        if &now != c { res = Err(fail(t, "C17", "create-refuses-an-existing-file", format!("{desc}: refused, but the file now holds {} bytes", now.len()), seed)); break 'nc; }
                    }
                    (_, _, Err(e)) => { res = Err(fail(t, "C17", "mode-table", format!("{desc}: open failed: {e}"), seed)); break 'nc; }
                    (_, _, Ok(mut sink)) => {
                        let mut want = match (mi, init) { (2, Some(c)) => c.clone(), _ => vec![] };
                        for v in [0x41424344u32, 7, 0xffffffff] {
                            w.push(v, &[]);
                            if let Err(f) = work(t, seed, &mut sink) { res = Err(f); break 'nc; }
                            want.extend(v.to_le_bytes());
                            want.push(10);
                            // consumed means on disk
                            let on_disk = std::fs::read(&path).unwrap();
                            if on_disk.len() < want.len() || on_disk[..want.len()] != want[..] {
                                res = Err(fail(t, "C17", "consumed-means-on-disk", format!("{desc}: a packet was consumed but the file holds {} bytes, {} must be there", on_disk.len(), want.len()), seed));
                                break 'nc;
                            }
                        }
                        drop(sink);
                        let now = std::fs::read(&path).unwrap();
                        if now != want {
                            res = Err(fail(t, "C17", "mode-table", format!("{desc}: after writing 3 packets the file holds {} bytes, specified {} bytes", now.len(), want.len()), seed));
                            break 'nc;
                        }
                    }
                }
            }
        }
    }
    // a backlog: far more input than one call handles; after EVERY call what was consumed must be on disk
    if res.is_ok() {
        let path = dir.join("backlog");
        let (w, r) = new_stream::<Float>();
        let big: Vec<Float> = (0..20_000).map(|i| i as Float).collect();
        let mut pos = 0;
        feed(&w, &big, &mut pos, usize::MAX, &no_tags);
        match FileSink::new(r, &path, Mode::Create) {
            Err(e) => res = Err(fail(t, "C17", "mode-table", format!("create on an absent file failed: {e}"), seed)),
            Ok(mut sink) => {
                for _ in 0..40 {
                    if let Err(f) = work(t, seed, &mut sink) { res = Err(f); break; }
                    n += 1;
                    let consumed = pos - (1_024_000 - w.free());
                    let on_disk = std::fs::read(&path).unwrap();
                    let must: Vec<u8> = big[..consumed].iter().flat_map(|v| v.to_le_bytes()).collect();
                    if on_disk.len() < must.len() || on_disk[..must.len()] != must[..] {
                        res = Err(fail(t, "C17", "consumed-means-on-disk", format!("backlog of {} samples: work() returned with {consumed} consumed but the file holds {} of the {} bytes that must be there", big.len(), on_disk.len(), must.len()), seed));
                        break;
                    }
                    if consumed == big.len() { break; }
                }
            }
        }
    }
    let _ = std::fs::remove_dir_all(&dir);
    res.map(|_| n)
}

// ------------------------------------------------------------------------------------------------ fsrc
// FileSource<Float>: the output is the file's whole samples, `repeat` times, in order, whatever room the output offers
// per call (the reader goes through a BufReader: a read shorter than requested is NOT end of file), EOF only after
// everything has been emitted; a trailing partial sample is not data.
fn run_fsrc(seed: u64) -> Result<u64, Fail> {
    let t = "fsrc";
    let mut rng = Rng(seed * 15485863 + 3);
    let dir = std::env::temp_dir().join(format!("verif_bx_fsrc_{}_{}", std::process::id(), seed));
    let _ = std::fs::remove_dir_all(&dir);
    std::fs::create_dir_all(&dir).unwrap();
    let path = dir.join("data.f32");
    // sizes around the BufReader buffer (8 KiB = 2048 samples), around the stream capacity (1 024 000) and tiny; trailing
    // bytes of a partial sample; repeat counts; drain styles -- a fixed table, so that every base seed covers all of it
    const CONFIGS: [(usize, usize, u64, usize); 12] = [
        (0, 0, 1, 0), (1, 3, 3, 1), (5, 1, 0, 0), (2047, 0, 2, 1), (2048, 2, 5, 3), (2049, 0, 1, 1), (10_000, 1, 3, 3),
        (300_000, 0, 2, 1), (1_100_000, 0, 2, 2), (1_100_000, 3, 1, 1), (300_000, 2, 1, 2), (1_100_000, 0, 1, 3),
    ];
    let (nsamp, extra, repeat, style) = CONFIGS[(seed % 1000) as usize % 12];
    let samples: Vec<Float> = (0..nsamp).map(|i| (i as Float) * 0.5 - 3.0).collect();
    let mut bytes: Vec<u8> = samples.iter().flat_map(|v| v.to_le_bytes()).collect();
    bytes.extend(std::iter::repeat(0xee).take(extra));
    std::fs::write(&path, &bytes).unwrap();
    let params = format!("samples={nsamp} trailing_bytes={extra} repeat={repeat} drain_style={style}");
    let res = (|| -> Result<u64, Fail> {
        let (mut src, out) = match FileSource::<Float>::new(&path) {
            Ok(x) => x,
            Err(e) => return Err(fail(t, "C14+C16", "file-opens", format!("{params}: {e}"), seed)),
        };
        src.repeat(rustradio::Repeat::finite(repeat));
        let want_total = nsamp as u64 * repeat;
        let mut got: u64 = 0;
        let mut works = 0u64;
        let mut eof = false;
        let mut idle = 0;
        while !eof && idle < 50 {
            let v = work(t, seed, &mut src)?;
            works += 1;
            if v == 2 { eof = true; }
            if v == 4 { return Err(fail(t, "C14+C16", "no-error-on-a-readable-file", format!("{params}: work() returned an error"), seed)); }
            // drain: everything, or only a little so that the next call finds little room
            let (rb, _) = out.read_buf().unwrap();
            let avail = rb.len();
            let take = match style {
                0 => avail,
                1 => avail.min(rng.pick(&[1, 100, 3001, 5000])),
                2 => if avail > 1_000_000 { rng.pick(&[1, 7, 500, 2047, 2049]) } else { 0 },
                _ => avail.min(rng.pick(&[0, 1, 2048, 1_000_000])),
            };
            for k in 0..take {
                let idx = ((got + k as u64) % (nsamp.max(1) as u64)) as usize;
                if nsamp == 0 || rb.slice()[k].to_bits() != samples[idx].to_bits() {
                    return Err(fail(t, "C14+C16+C08", "emits-the-file-samples-in-order-every-repetition", format!("{params}: output sample {} is {:?}, the file has {:?} there", got + k as u64, rb.slice()[k], samples.get(idx)), seed));
                }
            }
            rb.consume(take);
            got += take as u64;
            idle = if v == 1 && take == 0 { idle + 1 } else { 0 };
            if works > 200_000 { break; }
        }
        if !eof {
            return Err(fail(t, "C16", "eof-after-the-configured-repetitions", format!("{params}: no EOF after {works} calls, {got} samples drained"), seed));
        }
        // what is still buffered in the stream
        let (rb, _) = out.read_buf().unwrap();
        for k in 0..rb.len() {
            let idx = ((got + k as u64) % (nsamp.max(1) as u64)) as usize;
            if nsamp == 0 || rb.slice()[k].to_bits() != samples[idx].to_bits() {
                return Err(fail(t, "C14+C16+C08", "emits-the-file-samples-in-order-every-repetition", format!("{params}: output sample {} differs from the file", got + k as u64), seed));
            }
        }
        let total = got + rb.len() as u64;
        if total != want_total {
            return Err(fail(t, "C16", "eof-only-when-everything-emitted", format!("{params}: EOF after {total} samples, {want_total} = {nsamp} x {repeat} are due"), seed));
        }
        Ok(works)
    })();
    let _ = std::fs::remove_dir_all(&dir);
    res
}

// FileSource<Float> reading from a named pipe: every write of the feeder is exactly one read() of the source (the feeder
// waits for the harness between pieces), so reads end INSIDE samples and whole multiples of the sample size arrive while
// part of a sample is still buffered -- every segmentation of the byte stream must give the same samples.
fn run_fsrc_fifo(seed: u64) -> Result<u64, Fail> {
    use std::io::Write;
    let t = "fsrc";
    let mut rng = Rng(seed * 2750159 + 9);
    let dir = std::env::temp_dir().join(format!("verif_bx_fifo_{}_{}", std::process::id(), seed));
    let _ = std::fs::remove_dir_all(&dir);
    std::fs::create_dir_all(&dir).unwrap();
    let path = dir.join("pipe");
    let c = std::ffi::CString::new(path.to_str().unwrap()).unwrap();
    if unsafe { libc::mkfifo(c.as_ptr(), 0o600) } != 0 {
        let _ = std::fs::remove_dir_all(&dir);
        return Ok(0); // no FIFOs here: nothing checked
    }
    let nsamp = 30 + rng.below(50);
    let samples: Vec<Float> = (0..nsamp).map(|i| (i as Float) * 1.25 - 7.0).collect();
    let bytes: Vec<u8> = samples.iter().flat_map(|v| v.to_le_bytes()).collect();
    let mut pieces: Vec<Vec<u8>> = vec![];
    let mut pos = 0;
    while pos < bytes.len() {
        let k = [1usize, 2, 3, 5, 6, 8, 4, 12, 7, 16][rng.below(10)].min(bytes.len() - pos);
        pieces.push(bytes[pos..pos + k].to_vec());
        pos += k;
    }
    let sizes: Vec<usize> = pieces.iter().map(|p| p.len()).collect();
    let npieces = pieces.len();
    let (tx_go, rx_go) = std::sync::mpsc::channel::<()>();
    let (tx_done, rx_done) = std::sync::mpsc::channel::<()>();
    let p2 = path.clone();
    let feeder = std::thread::spawn(move || {
        let mut f = std::fs::OpenOptions::new().write(true).open(&p2).unwrap();
        for p in pieces {
            if rx_go.recv().is_err() { break; }
            f.write_all(&p).unwrap();
            f.flush().unwrap();
            let _ = tx_done.send(());
        }
        let _ = rx_go.recv(); // closed (end of file for the reader) only when the harness says so
    });
    let res = (|| -> Result<u64, Fail> {
        let (mut src, out) = match FileSource::<Float>::new(&path) {
            Ok(x) => x,
            Err(e) => return Err(fail(t, "C14+C16", "file-opens", format!("fifo: {e}"), seed)),
        };
        let mut works = 0;
        for _ in 0..npieces {
            tx_go.send(()).unwrap();
            rx_done.recv().unwrap();
            let v = work(t, seed, &mut src)?;
            works += 1;
            if v == 2 || v == 4 {
                return Err(fail(t, "C14+C08", "samples-reassembled-for-every-read-segmentation", format!("reads of {sizes:?} bytes: work() returned {} before the data ended", if v == 2 { "EOF" } else { "an error" }), seed));
            }
        }
        let _ = tx_go.send(()); // let the feeder close the pipe
        let (rb, _) = out.read_buf().unwrap();
        let got: Vec<Float> = rb.slice().to_vec();
        if got.len() != nsamp || got.iter().zip(samples.iter()).any(|(a, b)| a.to_bits() != b.to_bits()) {
            let k = got.iter().zip(samples.iter()).position(|(a, b)| a.to_bits() != b.to_bits()).unwrap_or(got.len().min(nsamp));
            return Err(fail(t, "C14+C08", "samples-reassembled-for-every-read-segmentation", format!("reads of {sizes:?} bytes: {} samples out, {nsamp} in the byte stream; first difference at sample {k}: {:?} vs {:?}", got.len(), got.get(k), samples.get(k)), seed));
        }
        Ok(works)
    })();
    drop(tx_go);
    let _ = feeder.join();
    let _ = std::fs::remove_dir_all(&dir);
    res
}

// ------------------------------------------------------------------------------------------------ s2pdu
fn run_s2pdu(seed: u64) -> Result<u64, Fail> {
    let t = "s2pdu";
    let mut rng = Rng(seed * 104729 + 5);
    let n = 6000;
    let data: Vec<u8> = (0..n).map(|i| (i % 251) as u8).collect();
    let tail = rng.pick(&[0, 1, 3, 10]);
    let max_size = rng.pick(&[5, 50, 400]);
    // dense burst tags: starts, ends, ends followed by tags inside the tail, duplicates on one sample, other keys
    let mut marks: std::collections::BTreeMap<usize, Vec<(String, TagValue)>> = Default::default();
    let mut i = 0;
    while i < n {
        i += 1 + rng.below(40);
        let k = rng.below(10);
        let e = marks.entry(i).or_default();
        match k {
            0..=3 => e.push(("burst".into(), TagValue::Bool(true))),
            4..=6 => {
                e.push(("burst".into(), TagValue::Bool(false)));
                if rng.below(2) == 0 {
                    // something inside the tail countdown
                    let j = i + 1 + rng.below(tail + 1);
                    marks.entry(j).or_default().push(("burst".into(), TagValue::Bool(rng.below(2) == 0)));
                }
            }
            7 => { e.push(("burst".into(), TagValue::Bool(true))); e.push(("burst".into(), TagValue::Bool(false))); }
            8 => e.push(("other".into(), TagValue::Bool(true))),
            _ => e.push(("burst".into(), TagValue::U64(1))),
        }
    }
    let tagf = |i: usize| marks.get(&i).cloned().unwrap_or_default();
    let mut outs: Vec<Vec<Vec<u8>>> = vec![];
    let mut works = 0;
    for drip in [false, true] {
        let (w, r) = new_stream::<u8>();
        let (mut b, o) = StreamToPdu::new(r, "burst", max_size, tail);
        let mut pos = 0;
        let mut pdus = vec![];
        let mut idle = 0;
        while idle < 3 {
            let fed = feed(&w, &data, &mut pos, if drip { rng.pick(&[0, 1, 2, 3, 7, 50]) } else { usize::MAX }, &tagf);
            let v = work(t, seed, &mut b)?;
            works += 1;
            while let Some((p, _)) = o.pop() {
                // a burst that outgrows max_size (body or tail) is discarded, never delivered
                if p.len() > max_size {
                    return Err(fail(t, "C08+C10", "no-pdu-longer-than-max_size", format!("tail {tail} max_size {max_size}: a PDU of {} samples was delivered", p.len()), seed));
                }
                pdus.push(p);
            }
            idle = if pos == data.len() && fed == 0 && v != 0 { idle + 1 } else { 0 };
        }
        outs.push(pdus);
    }
    if outs[0] != outs[1] {
        let k = outs[0].iter().zip(outs[1].iter()).position(|(a, b)| a != b).unwrap_or(outs[0].len().min(outs[1].len()));
        return Err(fail(t, "C08+C10", "pdus-independent-of-chunking", format!("tail {tail} max_size {max_size}: {} PDUs one-shot, {} drip-fed; first difference at PDU {k}: lengths {:?} vs {:?}", outs[0].len(), outs[1].len(), outs[0].get(k).map(|p| p.len()), outs[1].get(k).map(|p| p.len())), seed));
    }
    Ok(works)
}

// ------------------------------------------------------------------------------------------------ auenc
fn run_auenc(seed: u64) -> Result<u64, Fail> {
    let t = "auenc";
    let mut rng = Rng(seed * 1299709 + 1);
    let n = 3000;
    let data: Vec<Float> = (0..n).map(|i| (((i * 37) % 2001) as Float - 1000.0) / 1000.0).collect();
    let mut want: Vec<u8> = vec![];
    want.extend(0x2e736e64u32.to_be_bytes());
    want.extend(28u32.to_be_bytes());
    want.extend(0xffffffffu32.to_be_bytes());
    want.extend(3u32.to_be_bytes());
    want.extend(8000u32.to_be_bytes());
    want.extend(1u32.to_be_bytes());
    want.extend([0u8, 0, 0, 0]);
    for x in &data {
        want.extend(((x * i16::MAX as Float) as i16).to_be_bytes());
    }
    let (w, r) = new_stream::<Float>();
    let (mut b, o) = AuEncode::new(r, rustradio::au::Encoding::Pcm16, 8000, 1);
    let mut got: Vec<u8> = vec![];
    let mut pos = 0;
    let mut works = 0;
    let mut idle = 0;
    // some schedules run the encoder before any input exists (multi-threaded runner, or encoder added before its source)
    let early = rng.below(2) == 0;
    if early {
        for _ in 0..3 {
            work(t, seed, &mut b)?;
            works += 1;
        }
    }
    while idle < 4 {
        let fed = feed(&w, &data, &mut pos, rng.pick(&[0, 1, 2, 5, 100, 4000]), &no_tags);
        let v = work(t, seed, &mut b)?;
        works += 1;
        let d = drain(&o, rng.pick(&[0, 1, 3, 1000, 100000]), &mut got);
        idle = if pos == data.len() && fed == 0 && d == 0 && v != 0 { idle + 1 } else { 0 };
    }
    drain(&o, usize::MAX, &mut got);
    if got != want {
        let k = got.iter().zip(want.iter()).position(|(a, b)| a != b).unwrap_or(got.len().min(want.len()));
        return Err(fail(t, "C14+C08", "header-then-big-endian-pcm16", format!("encoder run before input: {early}; {} bytes out, {} specified; first difference at byte {k}: {:?} vs {:?}", got.len(), want.len(), got.get(k), want.get(k)), seed));
    }
    Ok(works)
}

// AuEncode with the output stream left with exactly ONE free byte while input is waiting: a PCM16 sample needs two, so the
// block must wait for two (defect F28 was a wait for one: satisfied at once, the block spins).
fn run_auenc_one_byte_free(seed: u64) -> Result<u64, Fail> {
    let t = "auenc";
    let (w, r) = new_stream::<Float>();
    let (mut b, o) = AuEncode::new(r, rustradio::au::Encoding::Pcm16, 8000, 1);
    let chunk: Vec<Float> = (0..1_024_000).map(|i| ((i % 200) as Float - 100.0) / 100.0).collect();
    let mut works = 0u64;
    // fill the output completely (4 096 000 bytes: header + a little over two million samples)
    for _ in 0..40 {
        let mut pos = 0;
        feed(&w, &chunk, &mut pos, usize::MAX, &no_tags);
        let v = work(t, seed, &mut b)?;
        works += 1;
        let full = o.read_buf().unwrap().0.len() == 4_096_000;
        if full { break; }
        if v != 0 && pos == 0 { break; }
    }
    let (rb, _) = o.read_buf().unwrap();
    if rb.len() != 4_096_000 {
        return Ok(works); // could not fill the output in this configuration: nothing checked
    }
    rb.consume(1);
    let mut pos = 0;
    feed(&w, &chunk, &mut pos, 10, &no_tags);
    let mut spins = 0;
    for _ in 0..2 {
        let before = o.read_buf().unwrap().0.len();
        let quick = std::panic::catch_unwind(std::panic::AssertUnwindSafe(|| match b.work() {
            Ok(BlockRet::WaitForStream(w, n)) => {
                let t0 = std::time::Instant::now();
                let _ = w.wait(n);
                t0.elapsed() < std::time::Duration::from_millis(40) && !w.closed()
            }
            _ => false,
        })).map_err(|_| fail(t, "C15", "work-does-not-panic", "work() panicked with one byte free in the output".into(), seed))?;
        works += 1;
        if quick && o.read_buf().unwrap().0.len() == before { spins += 1; }
    }
    if spins == 2 {
        return Err(fail(t, "C09", "wait-names-the-blocking-stream", "one byte free in the output, input waiting: two calls in a row made no progress and reported a wait that is already satisfied (a sample needs two bytes): the block spins".into(), seed));
    }
    Ok(works)
}

// ------------------------------------------------------------------------------------------------ tcp
fn run_tcp(seed: u64) -> Result<u64, Fail> {
    use std::io::Write;
    let t = "tcp";
    let mut rng = Rng(seed * 15487469 + 3);
    let nsamp = 40;
    let vals: Vec<Float> = (0..nsamp).map(|i| i as Float * 1.5 - 7.25).collect();
    let bytes: Vec<u8> = vals.iter().flat_map(|v| v.to_le_bytes()).collect();
    // segmentation: sizes 1..=9, biased towards "exactly the rest of the current sample"
    let mut segs = vec![];
    let mut p = 0;
    while p < bytes.len() {
        let rest = 4 - p % 4;
        let k = match rng.below(4) { 0 => rest, 1 => 1, _ => 1 + rng.below(9) }.min(bytes.len() - p);
        segs.push(k);
        p += k;
    }
    let listener = match std::net::TcpListener::bind("127.0.0.1:0") {
        Ok(l) => l,
        Err(_) => return Ok(0), // no loopback in this sandbox: nothing explored (reported as 0 work calls)
    };
    let port = listener.local_addr().unwrap().port();
    // the server writes one segment, then waits until the client has read it: every read() returns exactly one segment
    let (go_tx, go_rx) = std::sync::mpsc::channel::<()>();
    let segs2 = segs.clone();
    let bytes2 = bytes.clone();
    let srv = std::thread::spawn(move || {
        let (mut s, _) = listener.accept().unwrap();
        s.set_nodelay(true).unwrap();
        let mut p = 0;
        for k in segs2 {
            if go_rx.recv().is_err() { return; }
            s.write_all(&bytes2[p..p + k]).unwrap();
            s.flush().unwrap();
            p += k;
        }
        let _ = go_rx.recv();
        // close
    });
    let (mut b, o): (TcpSource<Float>, _) = TcpSource::new("127.0.0.1", port).map_err(|e| fail(t, "C14", "connect", format!("{e}"), seed))?;
    let mut got: Vec<Float> = vec![];
    let mut works = 0;
    let mut res = Ok(());
    for _ in 0..segs.len() + 1 {
        if go_tx.send(()).is_err() { break; }
        // give the segment time to arrive; read() blocks until it does anyway
        let v = match work(t, seed, &mut b) { Ok(v) => v, Err(f) => { res = Err(f); break; } };
        works += 1;
        drain(&o, usize::MAX, &mut got);
        if v == 2 { break; }
        if v == 4 { res = Err(fail(t, "C15", "never-errs-on-received-bytes", "work() returned Err".into(), seed)); break; }
    }
    drop(go_tx);
    let _ = srv.join();
    res?;
    let same = got.len() == vals.len() && got.iter().zip(vals.iter()).all(|(a, b)| a.to_bits() == b.to_bits());
    if !same {
        return Err(fail(t, "C14+C08", "samples-reassembled-for-every-read-segmentation", format!("read sizes {:?}: {} samples delivered by EOF, {} sent; first difference at {:?}", segs, got.len(), vals.len(), got.iter().zip(vals.iter()).position(|(a, b)| a.to_bits() != b.to_bits())), seed));
    }
    Ok(works)
}

// ------------------------------------------------------------------------------------------------ il2p
fn run_il2p(seed: u64) -> Result<u64, Fail> {
    let t = "il2p";
    let mut rng = Rng(seed * 2750159 + 9);
    let n = 4000;
    // bits only: a byte > 1 makes the LFSR assert (known finding F11)
    let data: Vec<u8> = (0..n).map(|_| (rng.next() & 1) as u8).collect();
    // sync tags: sparse, sometimes closer together than one header (120 bits), sometimes with a foreign key
    let mut marks: std::collections::BTreeMap<usize, Vec<(String, TagValue)>> = Default::default();
    let mut i = 0;
    while i < n {
        i += rng.pick(&[1, 7, 60, 119, 120, 121, 300, 500]);
        let key = if rng.below(6) == 0 { "other" } else { "sync" };
        marks.entry(i).or_default().push((key.into(), TagValue::Bool(true)));
    }
    let tagf = |i: usize| marks.get(&i).cloned().unwrap_or_default();
    let mut counts = vec![];
    let mut works = 0;
    for drip in [false, true] {
        let (w, r) = new_stream::<u8>();
        let (mut b, o) = Il2pDeframer::new(r);
        let mut pos = 0;
        let mut pdus = 0usize;
        let mut idle = 0;
        while idle < 3 {
            let fed = feed(&w, &data, &mut pos, if drip { rng.pick(&[0, 1, 2, 5, 40, 119, 121]) } else { usize::MAX }, &tagf);
            let v = work(t, seed, &mut b)?;
            works += 1;
            while o.pop().is_some() {
                pdus += 1;
            }
            idle = if pos == data.len() && fed == 0 && v != 0 { idle + 1 } else { 0 };
        }
        counts.push(pdus);
    }
    if counts[0] != counts[1] {
        return Err(fail(t, "C08", "headers-independent-of-chunking", format!("{} headers decoded one-shot, {} drip-fed, same bits and sync tags", counts[0], counts[1]), seed));
    }
    Ok(works)
}

// ------------------------------------------------------------------------------------------------ audec
/// AuDecode: every data offset 0..=40 and a few large ones, wrong magic / encoding / rate / channels, then PCM payload in
/// random pieces (odd sizes included): never a panic; either an error value or exactly one sample per two payload bytes.
/// AuDecode with its output completely full and exactly `left` bytes (2 = one whole sample, 3, 4) still unread in the
/// input: only the full output blocks it, so a wait that the input already satisfies -- twice in a row, nothing moving --
/// is a block that spins (and, with the upstream gone, one that a runner retires with a decodable sample unread).
fn run_audec_full_output(seed: u64) -> Result<u64, Fail> {
    let t = "audec";
    let mut works = 0u64;
    for left in [2usize, 3, 4] {
        let (w, r) = new_stream::<u8>();
        let (mut b, o) = AuDecode::new(r, 8000);
        let cap = o.total_size();
        let mut data: Vec<u8> = vec![];
        data.extend(0x2e736e64u32.to_be_bytes());
        data.extend(28u32.to_be_bytes());
        data.extend(0xffff_ffffu32.to_be_bytes());
        data.extend(3u32.to_be_bytes());
        data.extend(8000u32.to_be_bytes());
        data.extend(1u32.to_be_bytes());
        data.extend([0u8; 4]);
        data.extend((0..2 * cap + left).map(|i| (i % 251) as u8));
        let mut pos = 0;
        let mut guard = 0;
        loop {
            guard += 1;
            if guard > 2000 { return Ok(works); } // does not settle in this configuration: nothing checked here
            feed(&w, &data, &mut pos, usize::MAX, &no_tags);
            let v = work(t, seed, &mut b)?;
            works += 1;
            if v != 0 && pos == data.len() { break; }
        }
        if o.read_buf().unwrap().0.len() != cap || r_len(&w) != left { continue; }
        let mut spins = 0;
        for _ in 0..2 {
            let quick = std::panic::catch_unwind(std::panic::AssertUnwindSafe(|| match b.work() {
                Ok(BlockRet::WaitForStream(s, n)) => {
                    let t0 = std::time::Instant::now();
                    let _ = s.wait(n);
                    t0.elapsed() < std::time::Duration::from_millis(40) && !s.closed()
                }
                _ => false,
            })).map_err(|_| fail(t, "C15", "work-does-not-panic", format!("work() panicked with a full output and {left} bytes of input"), seed))?;
            works += 1;
            if quick && o.read_buf().unwrap().0.len() == cap { spins += 1; }
        }
        if spins == 2 {
            return Err(fail(t, "C09", "wait-names-the-blocking-stream", format!("output completely full, {left} bytes waiting in the input: two calls in a row made no progress and reported a wait that is already satisfied (the input holds what was asked for; only the output blocks): the block spins"), seed));
        }
    }
    Ok(works)
}
/// bytes a writer's peer has not consumed yet (capacity minus free space)
fn r_len(w: &WriteStream<u8>) -> usize { 4_096_000 - w.free() }

fn run_audec(seed: u64) -> Result<u64, Fail> {
    let t = "audec";
    let mut rng = Rng(seed * 982451653 + 3);
    let npay = 601; // odd: the last byte must never be decoded
    let payload: Vec<u8> = (0..npay).map(|_| (rng.next() & 0xff) as u8).collect();
    let mut offsets: Vec<u32> = (0..=40).collect();
    offsets.extend([0xffff_ffffu32, 5_000_000, 4_096_000, 4_096_008, 4_096_009]);
    let mut works = 0;
    for &off in &offsets {
        for mutate in 0..5 {
            let mut hdr: Vec<u8> = vec![];
            hdr.extend((if mutate == 1 { 0x2e736e65u32 } else { 0x2e736e64u32 }).to_be_bytes());
            hdr.extend(off.to_be_bytes());
            hdr.extend(0xffff_ffffu32.to_be_bytes());
            hdr.extend((if mutate == 2 { 2u32 } else { 3u32 }).to_be_bytes());
            hdr.extend((if mutate == 3 { 44100u32 } else { 8000u32 }).to_be_bytes());
            hdr.extend((if mutate == 4 { 2u32 } else { 1u32 }).to_be_bytes());
            // annotation up to the data offset (bounded: absurd offsets are not materialised)
            let ann = if off >= 24 && off <= 64 { (off - 24) as usize } else { 4 };
            hdr.extend(std::iter::repeat(0u8).take(ann));
            let mut data = hdr.clone();
            data.extend(&payload);
            let well_formed = mutate == 0 && off >= 24 && off <= 64;
            let (w, r) = new_stream::<u8>();
            let (mut b, o) = AuDecode::new(r, 8000);
            let mut got: Vec<Float> = vec![];
            let mut pos = 0;
            let mut idle = 0;
            let mut errored = false;
            let mut rounds = 0;
            while idle < 3 && !errored && rounds < 4000 {
                rounds += 1;
                let fed = feed(&w, &data, &mut pos, rng.pick(&[0, 1, 1, 2, 3, 5, 31, 64, 1000]), &no_tags);
                let v = work(t, seed, &mut b).map_err(|mut f| { f.what = format!("work() panicked: data offset {off}, header mutation {mutate}, {pos} bytes fed"); f })?;
                works += 1;
                errored = v == 4;
                let d = drain(&o, rng.pick(&[0, 1, 7, 1000]), &mut got);
                idle = if pos == data.len() && fed == 0 && d == 0 && v != 0 { idle + 1 } else { 0 };
            }
            drain(&o, usize::MAX, &mut got);
            if well_formed && !errored {
                // C09: the writer goes away with one odd byte left over; the decoder must end up waiting on its (ended)
                // INPUT -- a runner retires a block only when the stream it waits for is closed
                drop(w);
                let closed_wait = std::panic::catch_unwind(std::panic::AssertUnwindSafe(|| match b.work() {
                    Ok(BlockRet::WaitForStream(s, _)) => s.closed(),
                    Ok(BlockRet::EOF) => true,
                    _ => false,
                }));
                works += 1;
                if !matches!(closed_wait, Ok(true)) {
                    return Err(fail(t, "C09", "waits-on-the-ended-input-at-end-of-stream", format!("data offset {off}: input ended (one odd byte left), output has room, and the verdict is not a wait on the ended input"), seed));
                }
            }
            if well_formed {
                let want: Vec<Float> = payload.chunks_exact(2).map(|c| i16::from_be_bytes([c[0], c[1]]) as Float / 32767.0).collect();
                let same = got.len() == want.len() && got.iter().zip(want.iter()).all(|(a, b)| a.to_bits() == b.to_bits());
                if errored || !same {
                    let k = got.iter().zip(want.iter()).position(|(a, b)| a.to_bits() != b.to_bits());
                    return Err(fail(t, "C14+C08", "one-sample-per-two-payload-bytes", format!("well-formed header with data offset {off}: error={errored}, {} samples decoded, {} specified, first difference at {:?}", got.len(), want.len(), k), seed));
                }
            } else if !got.is_empty() && mutate != 0 {
                return Err(fail(t, "C15", "malformed-header-is-an-error", format!("header mutation {mutate}, data offset {off}: {} samples were decoded", got.len()), seed));
            }
        }
    }
    Ok(works)
}

// ------------------------------------------------------------------------------------------------ sigmf
fn tar_header(name: &str, size: usize) -> Vec<u8> {
    let mut h = vec![0u8; 512];
    h[..name.len()].copy_from_slice(name.as_bytes());
    h[100..108].copy_from_slice(b"0000644\0");
    h[108..116].copy_from_slice(b"0000000\0");
    h[116..124].copy_from_slice(b"0000000\0");
    h[124..136].copy_from_slice(format!("{:011o}\0", size).as_bytes());
    h[136..148].copy_from_slice(b"00000000000\0");
    h[156] = b'0';
    h[257..263].copy_from_slice(b"ustar\0");
    h[263..265].copy_from_slice(b"00");
    for b in &mut h[148..156] { *b = b' '; }
    let sum: u32 = h.iter().map(|b| *b as u32).sum();
    h[148..156].copy_from_slice(format!("{:06o}\0 ", sum).as_bytes());
    h
}
fn tar_member(out: &mut Vec<u8>, name: &str, data: &[u8]) {
    out.extend(tar_header(name, data.len()));
    out.extend(data);
    out.extend(std::iter::repeat(0u8).take((512 - data.len() % 512) % 512));
}
/// SigMFSource from a recording (two files) and from an archive (data member not first), repeat 0..3, data of 0 / few /
/// more-than-one-stream-full samples, consumer schedules that leave the output nearly full: exactly repeat x data, then EOF.
fn run_sigmf(seed: u64) -> Result<u64, Fail> {
    use rustradio::sigmf::SigMFSourceBuilder;
    let t = "sigmf";
    let mut rng = Rng(seed * 6700417 + 1);
    let dir = std::env::temp_dir().join(format!("verif_bx_sigmf_{}_{}", std::process::id(), seed));
    let _ = std::fs::remove_dir_all(&dir);
    std::fs::create_dir_all(&dir).unwrap();
    let mut works = 0;
    let mut res: Result<(), Fail> = Ok(());
    let mut combo = 0usize;
    'outer: for archive in [false, true] {
        for nsamp in [0usize, 1, 777, 1_030_000] {
            for repeat in 0..=3u64 {
                if nsamp > 100_000 && repeat > 2 { continue; }
                let samples: Vec<Float> = (0..nsamp).map(|i| i as Float * 0.5 - 3.0).collect();
                let mut bytes: Vec<u8> = samples.iter().flat_map(|v| v.to_le_bytes()).collect();
                // half of the recordings were cut short in the middle of a sample: the partial sample is not data
                if (nsamp + repeat as usize + archive as usize) % 2 == 1 {
                    bytes.extend([0xAAu8, 0xBB]);
                }
                let meta = r#"{"global":{"core:version":"1.1.0","core:datatype":"rf32_le","core:sample_rate":48000.0},"captures":[{"core:sample_start":0}],"annotations":[]}"#;
                let base = dir.join(format!("r_{}_{}_{}.sigmf", archive as u8, nsamp, repeat));
                if archive {
                    let mut tar: Vec<u8> = vec![];
                    tar_member(&mut tar, "unrelated.txt", b"hello, this member comes first");
                    tar_member(&mut tar, "rec.sigmf-data", &bytes);
                    tar_member(&mut tar, "rec.sigmf-meta", meta.as_bytes());
                    tar.extend(vec![0u8; 1024]);
                    std::fs::write(&base, &tar).unwrap();
                } else {
                    std::fs::write(dir.join(format!("r_{}_{}_{}.sigmf-meta", archive as u8, nsamp, repeat)), meta).unwrap();
                    std::fs::write(dir.join(format!("r_{}_{}_{}.sigmf-data", archive as u8, nsamp, repeat)), &bytes).unwrap();
                }
                let built = SigMFSourceBuilder::<Float>::new(base.clone()).repeat(rustradio::Repeat::finite(repeat)).build();
                let (mut b, o) = match built {
                    Ok(x) => x,
                    Err(e) => { res = Err(fail(t, "C14", "recording-opens", format!("archive={archive} samples={nsamp}: {e}"), seed)); break 'outer; }
                };
                let desc = format!("archive={archive} samples={nsamp} repeat={repeat}");
                let mut got: Vec<Float> = vec![];
                let mut eof = false;
                // every drain style on every size within one run, whatever the seed
                combo += 1;
                let style = (combo + seed as usize) % 3;
                for _ in 0..20000 {
                    let v = match work(t, seed, &mut b) { Ok(v) => v, Err(mut f) => { f.what = format!("work() panicked: {desc}"); res = Err(f); break 'outer; } };
                    works += 1;
                    if v == 4 { res = Err(fail(t, "C14+C15", "error-only-for-bad-files", format!("{desc}: work() returned Err on a well-formed recording"), seed)); break 'outer; }
                    // leave the output nearly full most of the time
                    let j = match style { 0 => usize::MAX, 1 => rng.pick(&[100, 5000, 1, 64]), _ => rng.pick(&[0, 0, 300_000]) };
                    drain(&o, j, &mut got);
                    if v == 2 { eof = true; break; }
                }
                drain(&o, usize::MAX, &mut got);
                let want_len = nsamp * repeat as usize;
                let ok = eof && got.len() == want_len && got.iter().enumerate().all(|(i, v)| v.to_bits() == samples[i % nsamp.max(1)].to_bits());
                if !ok {
                    let k = got.iter().enumerate().position(|(i, v)| nsamp == 0 || v.to_bits() != samples[i % nsamp].to_bits());
                    res = Err(fail(t, "C14+C16+C08", "data-exactly-repeat-times-then-eof", format!("{desc}: eof={eof}, {} samples emitted, {} specified, first wrong sample at {:?}", got.len(), want_len, k), seed));
                    break 'outer;
                }
            }
        }
    }
    let _ = std::fs::remove_dir_all(&dir);
    res.map(|_| works)
}

// ------------------------------------------------------------------------------------------------ stream
/// The stream API itself (src/stream.rs on top of the ring): samples and ALL tags written come back exactly once, in
/// order -- several tags on one sample, equal keys, equal key and value included -- across several laps of the ring.
fn run_stream(seed: u64) -> Result<u64, Fail> {
    let t = "stream";
    let mut rng = Rng(seed * 49979687 + 13);
    let (w, r) = new_stream::<u32>();
    let mut next = 0u32;
    let mut want_tags: Vec<(u64, String, String)> = vec![];
    let mut got_tags: Vec<(u64, String, String)> = vec![];
    let mut got: u64 = 0;
    let mut ops = 0;
    for _ in 0..60 {
        // write a chunk with tags
        {
            let mut wb = w.write_buf().unwrap();
            let n = rng.pick(&[0, 1, 5, 1000, 300_000, 700_000]).min(wb.len());
            let mut tags = vec![];
            for i in 0..n {
                wb.slice()[i] = next + i as u32;
                let abs = next as u64 + i as u64;
                if abs % 50_021 < 3 || (i < 4 && rng.below(2) == 0) {
                    for k in 0..1 + rng.below(3) {
                        let (key, val) = match rng.below(3) { 0 => ("a", TagValue::U64(7)), 1 => ("a", TagValue::U64(k as u64)), _ => ("b", TagValue::Bool(true)) };
                        tags.push(Tag::new(i, key, val.clone()));
                        want_tags.push((abs, key.to_string(), format!("{val:?}")));
                    }
                }
            }
            wb.produce(n, &tags);
            next += n as u32;
        }
        // read some
        {
            let (rb, tags) = r.read_buf().unwrap();
            let m = rng.pick(&[0, 1, 3, 999, 250_000, usize::MAX]).min(rb.len());
            for (i, v) in rb.slice()[..m].iter().enumerate() {
                if *v as u64 != got + i as u64 {
                    return Err(fail(t, "C01", "samples-in-commit-order", format!("sample {} reads {}", got + i as u64, v), seed));
                }
            }
            for tg in &tags {
                if tg.pos() < m {
                    got_tags.push((got + tg.pos() as u64, tg.key().to_string(), format!("{:?}", tg.val())));
                }
            }
            rb.consume(m);
            got += m as u64;
        }
        ops += 2;
    }
    // wait_for_read: "never satisfiable" only once the writer is gone and less than asked for is buffered
    if r.wait_for_read(1) && r.read_buf().unwrap().0.len() >= 1 {
        return Err(fail(t, "C09", "wait_for_read-gives-up-only-when-the-writer-is-gone-and-too-little-is-buffered", "wait_for_read(1) gave up although a sample is buffered".into(), seed));
    }
    {
        let have = r.read_buf().unwrap().0.len();
        if r.wait_for_read(have + 1) {
            return Err(fail(t, "C09", "wait_for_read-gives-up-only-when-the-writer-is-gone-and-too-little-is-buffered", format!("wait_for_read({}) gave up with {have} samples buffered while the write end is alive", have + 1), seed));
        }
    }
    // ReadStream::eof(): never while the write end exists; once it is gone, exactly when everything has been consumed
    if r.eof() {
        return Err(fail(t, "C19+C09", "eof-only-when-the-writer-is-gone-and-nothing-is-readable", format!("eof() with the write end alive ({} of {next} samples consumed)", got), seed));
    }
    drop(w);
    {
        let have = r.read_buf().unwrap().0.len();
        if have > 0 && r.wait_for_read(have) {
            return Err(fail(t, "C09", "wait_for_read-gives-up-only-when-the-writer-is-gone-and-too-little-is-buffered", format!("writer gone, {have} samples buffered, wait_for_read({have}) gave up: the buffered samples would be abandoned"), seed));
        }
        if !r.wait_for_read(have + 1) {
            return Err(fail(t, "C09", "wait_for_read-gives-up-when-the-writer-is-gone-and-too-little-is-buffered", format!("writer gone, {have} samples buffered, wait_for_read({}) does not give up: shutdown would not propagate", have + 1), seed));
        }
    }
    loop {
        let (rb, _tags) = r.read_buf().unwrap();
        let left = rb.len();
        drop(rb);
        let e = r.eof();
        if e != (left == 0) {
            return Err(fail(t, "C19+C09", "eof-only-when-the-writer-is-gone-and-nothing-is-readable", format!("writer gone, {left} samples readable, eof() says {e}"), seed));
        }
        if left == 0 { break; }
        let (rb, _tags) = r.read_buf().unwrap();
        let m = rng.pick(&[1, 2, 1000, usize::MAX]).min(left);
        rb.consume(m);
        ops += 1;
    }
    {
        let (w2, r2) = new_stream::<u32>();
        { let mut wb = w2.write_buf().unwrap(); let k = 1000.min(wb.len()); for i in 0..k { wb.slice()[i] = i as u32; } wb.produce(k, &[]); }
        let free = w2.free();
        if w2.wait_for_write(free) {
            return Err(fail(t, "C09", "wait_for_write-gives-up-only-when-the-reader-is-gone-and-too-little-is-free", format!("wait_for_write({free}) gave up with {free} samples free"), seed));
        }
        if w2.wait_for_write(free + 1) {
            return Err(fail(t, "C09", "wait_for_write-gives-up-only-when-the-reader-is-gone-and-too-little-is-free", format!("wait_for_write({}) gave up while the read end is alive", free + 1), seed));
        }
        drop(r2);
        if w2.wait_for_write(free) {
            return Err(fail(t, "C09", "wait_for_write-gives-up-only-when-the-reader-is-gone-and-too-little-is-free", format!("reader gone, wait_for_write({free}) gave up with {free} samples free"), seed));
        }
        if !w2.wait_for_write(free + 1) {
            return Err(fail(t, "C09", "wait_for_write-gives-up-when-the-reader-is-gone-and-too-little-is-free", format!("reader gone, {free} samples free, wait_for_write({}) does not give up", free + 1), seed));
        }
        ops += 4;
    }
    // packet ("non-copy") streams against a reference queue: pop returns the oldest packet exactly once, push appends,
    // peek_size is the oldest packet's length, eof only when empty and the writer is gone
    {
        let (tx, rx) = rustradio::stream::new_nocopy_stream::<Vec<u8>>();
        let mut reference: std::collections::VecDeque<Vec<u8>> = Default::default();
        let mut ctr = 0u32;
        let mut tx = Some(tx);
        for step in 0..400 {
            if step == 300 { tx = None; }
            let c = rng.below(5);
            if c < 2 {
                if let Some(tx) = &tx {
                    ctr += 1;
                    let pkt: Vec<u8> = (0..(ctr % 7) as usize).map(|i| (ctr as usize * 31 + i) as u8).chain(ctr.to_le_bytes()).collect();
                    reference.push_back(pkt.clone());
                    tx.push(pkt, &[]);
                }
            } else if c < 4 {
                let want_len = reference.front().map(|p| p.len());
                let pk = rx.peek_size();
                if pk != want_len {
                    return Err(fail(t, "C01", "peek_size-is-the-length-of-the-oldest-packet", format!("step {step}: peek_size {pk:?}, oldest queued packet has {want_len:?}"), seed));
                }
                let got = rx.pop();
                let want = reference.pop_front();
                match (&got, &want) {
                    (None, None) => {}
                    (Some((g, tags)), Some(wv)) if g == wv => {
                        if !tags.is_empty() { return Err(fail(t, "C02", "pop-reports-no-tags", format!("step {step}: {} tags on a packet", tags.len()), seed)); }
                    }
                    _ => return Err(fail(t, "C01", "pop-returns-the-oldest-packet-and-removes-exactly-it", format!("step {step}: popped {:?}, oldest queued packet was {:?}", got.as_ref().map(|g| &g.0), want), seed)),
                }
            } else {
                let e = rx.eof();
                let want = tx.is_none() && reference.is_empty();
                if e != want {
                    return Err(fail(t, "C09", "eof-only-when-empty-and-the-writer-is-gone", format!("step {step}: eof() says {e}; writer {} , {} packets queued", if tx.is_some() { "alive" } else { "gone" }, reference.len()), seed));
                }
            }
            ops += 1;
        }
    }
    let upto = got;
    let want: Vec<_> = want_tags.into_iter().filter(|t| t.0 < upto).collect();
    if got_tags != want {
        let k = got_tags.iter().zip(want.iter()).position(|(a, b)| a != b).unwrap_or(got_tags.len().min(want.len()));
        return Err(fail(t, "C02", "every-tag-exactly-once-in-order", format!("{} tags read back for {} written on the first {upto} samples; first difference at #{k}: {:?} vs {:?}", got_tags.len(), want.len(), got_tags.get(k), want.get(k)), seed));
    }
    Ok(ops)
}

// ------------------------------------------------------------------------------------------------ totext
/// ToText over two input streams: the text is a function of the two sample sequences (one line per sample pair, tags of
/// that sample in parentheses), however the inputs arrive and however little output space there is.
fn run_totext(seed: u64) -> Result<u64, Fail> {
    let t = "totext";
    let mut rng = Rng(seed * 32452843 + 5);
    let n = 3000;
    let a: Vec<u32> = (0..n).map(|i| (i * 7 % 1000) as u32).collect();
    let b: Vec<u32> = (0..n - 100).map(|i| (i * 13 % 977) as u32).collect();
    let tagf = |i: usize| if i % 211 == 3 { vec![("k".to_string(), TagValue::U64(i as u64))] } else { vec![] };
    let mut outs: Vec<Vec<u8>> = vec![];
    let mut works = 0;
    for drip in [false, true] {
        let (wa, ra) = new_stream::<u32>();
        let (wb, rb) = new_stream::<u32>();
        let (mut blk, o) = ToText::new(vec![ra, rb]);
        let (mut pa, mut pb) = (0, 0);
        let mut got: Vec<u8> = vec![];
        let mut idle = 0;
        while idle < 4 {
            let fa = feed(&wa, &a, &mut pa, if drip { rng.pick(&[0, 1, 2, 9, 100]) } else { usize::MAX }, &tagf);
            let fb = feed(&wb, &b, &mut pb, if drip { rng.pick(&[0, 0, 1, 3, 50]) } else { usize::MAX }, &no_tags);
            let v = work(t, seed, &mut blk)?;
            works += 1;
            let d = drain(&o, if drip { rng.pick(&[0, 1, 5, 17, 100_000]) } else { usize::MAX }, &mut got);
            idle = if pa == a.len() && pb == b.len() && fa == 0 && fb == 0 && d == 0 && v != 0 { idle + 1 } else { 0 };
        }
        drain(&o, usize::MAX, &mut got);
        outs.push(got);
    }
    if outs[0] != outs[1] {
        let k = outs[0].iter().zip(outs[1].iter()).position(|(x, y)| x != y).unwrap_or(outs[0].len().min(outs[1].len()));
        return Err(fail(t, "C08+C10", "text-independent-of-chunking", format!("{} bytes one-shot, {} drip-fed; first difference at byte {k}", outs[0].len(), outs[1].len()), seed));
    }
    let lines = outs[0].iter().filter(|c| **c == b'\n').count();
    if lines != b.len() {
        return Err(fail(t, "C10", "one-line-per-complete-sample-tuple", format!("{lines} lines for {} complete sample pairs", b.len()), seed));
    }
    Ok(works)
}

// ------------------------------------------------------------------------------------------------ misc
/// SignalSourceFloat / SignalSourceComplex / VectorSink verdicts (C09): a generator whose output is full must wait, not
/// ask to be called again; a full sink must not wait for input that is already there
fn run_misc(seed: u64) -> Result<u64, Fail> {
    let t = "misc";
    let mut works = 0;
    for which in 0..2 {
        // fill the output completely, then keep calling: every further call must be a wait and change nothing
        let (v0, fill0, v1, fill1) = if which == 0 {
            let (mut b, o) = SignalSourceFloat::new(48000.0, 1000.0, 1.0);
            let v0 = work(t, seed, &mut b)?; let f0 = o.read_buf().unwrap().0.len();
            let v1 = work(t, seed, &mut b)?; let f1 = o.read_buf().unwrap().0.len();
            (v0, f0, v1, f1)
        } else {
            let (mut b, o) = SignalSourceComplex::new(48000.0, 1000.0, 1.0);
            let v0 = work(t, seed, &mut b)?; let f0 = o.read_buf().unwrap().0.len();
            let v1 = work(t, seed, &mut b)?; let f1 = o.read_buf().unwrap().0.len();
            (v0, f0, v1, f1)
        };
        works += 2;
        if !(v0 == 0 && fill0 > 0) {
            return Err(fail(t, "C09", "signal-source-fills-the-output", format!("first call: verdict {v0}, {fill0} samples"), seed));
        }
        if v1 == 0 && fill1 == fill0 {
            return Err(fail(t, "C09", "again-means-progress", format!("signal source {which}: output full ({fill0} samples), nothing produced, verdict Again"), seed));
        }
    }
    // VectorSink: full storage, input keeps coming
    let (w, r) = new_stream::<u32>();
    let mut sink = VectorSink::new(r, 5);
    let data: Vec<u32> = (0..40).collect();
    let mut pos = 0;
    for _ in 0..10 {
        feed(&w, &data, &mut pos, 4, &no_tags);
        let v = work(t, seed, &mut sink)?;
        works += 1;
        let pending = 1_024_000 - w.free();
        if v == 1 && pending > 0 && sink.hook().data().samples().len() >= 5 {
            return Err(fail(t, "C09", "wait-names-the-blocking-stream", format!("VectorSink is full, {pending} samples wait in its input, and it reports a wait for input"), seed));
        }
    }
    if sink.hook().data().samples() != &[0u32, 1, 2, 3, 4][..] {
        return Err(fail(t, "C09", "sink-stores-the-first-max_size-samples", format!("stored {:?}", sink.hook().data().samples()), seed));
    }
    Ok(works)
}

// ------------------------------------------------------------------------------------------------ wpcr
fn run_wpcr(seed: u64) -> Result<u64, Fail> {
    use rustradio::stream::new_nocopy_stream;
    let t = "wpcr";
    let mut bursts: Vec<Vec<Float>> = vec![];
    // every burst of length 0..=10 over {+1, -1}
    for n in 0..=10usize {
        for bits in 0..(1u32 << n) {
            bursts.push((0..n).map(|i| if (bits >> i) & 1 == 1 { 1.0 } else { -1.0 }).collect());
        }
    }
    // periodic bursts (transition spectrum peaking anywhere up to Nyquist), a few phases and lengths
    for period in 2..=9usize {
        for len in [12usize, 13, 40, 64, 100, 101, 250, 257] {
            for phase in 0..period.min(3) {
                bursts.push((0..len).map(|i| if ((i + phase) % period) * 2 < period { 1.0 } else { -1.0 }).collect());
            }
        }
    }
    // constant bursts of many values and lengths (the f32 mean of equal values need not be that value)
    for len in 1..=12usize {
        for v in [0.1f32, 0.3, 0.7, 0.9, -0.9, 1.0e-3, 16_777_217.0, 1.0e30, -0.0] {
            bursts.push(vec![v; len]);
        }
    }
    // degenerate values
    let mut rng = Rng(seed * 31 + 7);
    for _ in 0..50 {
        let n = rng.below(40);
        bursts.push((0..n).map(|_| match rng.below(8) { 0 => Float::NAN, 1 => Float::INFINITY, 2 => Float::NEG_INFINITY, 3 => 0.0, _ => rng.below(2001) as Float / 1000.0 - 1.0 }).collect());
    }
    let mut works = 0;
    for burst in &bursts {
        for which in 0..2 {
            let (tx, rx) = new_nocopy_stream::<Vec<Float>>();
            tx.push(burst.clone(), &[]);
            let r = if which == 0 {
                let (mut b, _o) = WpcrBuilder::new(rx).build();
                std::panic::catch_unwind(std::panic::AssertUnwindSafe(|| b.work().is_ok()))
            } else {
                let (mut b, _o) = Midpointer::new(rx);
                std::panic::catch_unwind(std::panic::AssertUnwindSafe(|| b.work().is_ok()))
            };
            works += 1;
            if !matches!(r, Ok(true)) {
                let shown: Vec<String> = burst.iter().take(24).map(|x| format!("{x}")).collect();
                return Err(fail(t, "C15", "no-panic-on-burst-content", format!("{} panicked or failed on the burst of {} samples [{}{}]", if which == 0 { "Wpcr::work" } else { "Midpointer::work" }, burst.len(), shown.join(","), if burst.len() > 24 { ",.." } else { "" }), seed));
            }
        }
    }
    Ok(works)
}

#[test]
fn bx_io() {
    std::panic::set_hook(Box::new(|i| {
        if let Some(l) = i.location() {
            if l.file().starts_with("tests/") {
                eprintln!("harness panic: {i}");
            }
        }
    }));
    let targets = std::env::var("BX_TARGETS").unwrap_or_else(|_| "rtlsdr,fsink,fsrc,s2pdu,auenc,audec,sigmf,tcp,wpcr,il2p,stream,totext,misc".into());
    let n: u64 = std::env::var("BX_N").ok().and_then(|s| s.parse().ok()).unwrap_or(40);
    let base: u64 = std::env::var("VERIF_SEED").ok().and_then(|s| s.parse().ok()).unwrap_or(1);
    let mut failed = false;
    for t in targets.split(',') {
        let mut runs = 0u64;
        let mut works = 0u64;
        let mut res: Result<(), Fail> = Ok(());
        for i in 0..n {
            let seed = base * 1000 + i;
            let r = match t {
                "rtlsdr" => run_rtlsdr(seed),
                "fsink" => { if i > 0 { break; } run_fsink(seed) }
                "s2pdu" => run_s2pdu(seed),
                "auenc" => match if i == 0 { run_auenc_one_byte_free(seed) } else { Ok(0) } { Err(f) => Err(f), Ok(_) => run_auenc(seed) },
                "tcp" => run_tcp(seed),
                "fsrc" => { if i > 19 { break; } if i < 12 { run_fsrc(seed) } else { run_fsrc_fifo(seed) } }
                "wpcr" => { if i > 0 { break; } run_wpcr(seed) }
                "il2p" => run_il2p(seed),
                "stream" => run_stream(seed),
                "misc" => { if i > 0 { break; } run_misc(seed) }
                "totext" => { if i > 7 { break; } run_totext(seed) }
                "audec" => { if i > 1 { break; } match if i == 0 { run_audec_full_output(seed) } else { Ok(0) } { Err(f) => Err(f), Ok(_) => run_audec(seed) } }
                "sigmf" => { if i > 1 { break; } run_sigmf(seed) }
                _ => Ok(0),
            };
            runs += 1;
            match r {
                Ok(w) => works += w,
                Err(f) => { res = Err(f); break; }
            }
        }
        println!("BXSTAT {{\"target\":\"{}\",\"schedules\":{},\"work_calls\":{}}}", t, runs, works);
        if let Err(f) = res {
            f.print();
            failed = true;
        }
    }
    if failed {
        panic!("bounded io check failed");
    }
}
