// bx blocks harness: BOUNDED drip-feed check of real blocks (never counted as proof).
//
// Streams of 4096-byte samples hold exactly 1000 samples (DEFAULT_STREAM_SIZE = 4_096_000), so "output full",
// "input longer than the free output space" and wrap-around are routine.  Each target block is driven by
// BX_N (default 40) pseudo-random schedules of {feed k tagged samples, work(), drain j samples} and its
// cumulative output is compared with the block's stream function F(all input fed) -- the same F the Verus
// units prove -- plus tags (C12), verdict sanity (C09: `Again` must come with progress) and panic freedom (C15).
// First divergence per target is printed as `BXFAIL {json}`.
use rustradio::block::{Block, BlockRet};
use rustradio::blocks::*;
use rustradio::stream::{new_nocopy_stream, new_stream, ReadStream, Tag, TagValue, WriteStream};
use rustradio::Repeat;

const LANES: usize = 512;
const CAP: usize = 1000;

#[derive(Clone, Copy, PartialEq, Debug)]
struct S([u64; LANES]);
impl Default for S {
    fn default() -> Self {
        S([0; LANES])
    }
}
fn mk(v: u64) -> S {
    S([v; LANES])
}
impl S {
    fn v(&self) -> u64 {
        // a torn / misaligned sample shows as disagreeing lanes
        // (probe a few lanes only: the harness runs with little optimisation)
        let a = self.0[0];
        if self.0[1] != a || self.0[LANES / 2] != a || self.0[LANES - 1] != a {
            u64::MAX
        } else {
            a
        }
    }
}
impl std::ops::Add for S {
    type Output = S;
    fn add(self, o: S) -> S {
        mk(self.0[0].wrapping_add(o.0[0]))
    }
}
impl std::ops::BitXor for S {
    type Output = S;
    fn bitxor(self, o: S) -> S {
        mk(self.0[0] ^ o.0[0])
    }
}
impl std::ops::Mul for S {
    type Output = S;
    fn mul(self, o: S) -> S {
        mk(self.0[0].wrapping_mul(o.0[0]))
    }
}

struct Rng(u64);
impl Rng {
    fn next(&mut self) -> u64 {
        self.0 ^= self.0 << 13;
        self.0 ^= self.0 >> 7;
        self.0 ^= self.0 << 17;
        self.0
    }
    fn below(&mut self, n: usize) -> usize {
        (self.next() % (n as u64).max(1)) as usize
    }
    fn pick(&mut self, xs: &[usize]) -> usize {
        xs[self.below(xs.len())]
    }
}

type TagRec = (usize, String, String); // absolute index, key, value rendered

fn tv(v: &TagValue) -> String {
    format!("{:?}", v)
}

/// feed up to `k` fresh samples (values from `next`), a tag "t"=id on each sample whose value % tag_every == 0
fn feed(w: &WriteStream<S>, k: usize, next: &mut u64, tag_every: u64, fed: &mut Vec<u64>, fed_tags: &mut Vec<TagRec>) -> usize {
    let mut wb = w.write_buf().unwrap();
    let n = std::cmp::min(k, wb.len());
    let mut tags = vec![];
    for i in 0..n {
        let v = *next;
        *next += 1;
        wb.slice()[i] = mk(v);
        if tag_every > 0 && v % tag_every == 0 {
            tags.push(Tag::new(i, "t", TagValue::U64(v)));
            fed_tags.push((fed.len(), "t".into(), tv(&TagValue::U64(v))));
            if v % (2 * tag_every) == 0 {
                tags.push(Tag::new(i, "u", TagValue::U64(v + 1)));
                fed_tags.push((fed.len(), "u".into(), tv(&TagValue::U64(v + 1))));
            }
        }
        fed.push(v);
    }
    wb.produce(n, &tags);
    n
}

/// drain up to `j` samples from the block's output
fn drain(r: &ReadStream<S>, j: usize, got: &mut Vec<u64>, got_tags: &mut Vec<TagRec>) -> usize {
    let (rb, tags) = r.read_buf().unwrap();
    let n = std::cmp::min(j, rb.len());
    if std::env::var("BX_TRACE").is_ok() {
        eprintln!("drain: got={} avail={} take={} tags={:?}", got.len(), rb.len(), n, tags.iter().map(|t| (t.pos(), t.key().to_string(), tv(t.val()))).collect::<Vec<_>>());
    }
    for t in &tags {
        if t.pos() < n {
            got_tags.push((got.len() + t.pos(), t.key().to_string(), tv(t.val())));
        }
    }
    for i in 0..n {
        got.push(rb.slice()[i].v());
    }
    rb.consume(n);
    n
}

fn readable(r: &ReadStream<S>) -> usize {
    r.read_buf().unwrap().0.len()
}

struct Fail {
    target: String,
    prop: &'static str,
    label: String,
    what: String,
    seed: u64,
    params: String,
}
impl Fail {
    fn print(&self) {
        println!(
            "BXFAIL {{\"target\":\"{}\",\"property\":\"{}\",\"label\":\"{}\",\"what\":\"{}\",\"seed\":{},\"params\":\"{}\"}}",
            self.target, self.prop, self.label, self.what.replace('"', "'"), self.seed, self.params
        );
    }
}

fn cmp_prefix(target: &str, seed: u64, params: &str, got: &[u64], want: &[u64], final_: bool) -> Result<(), Fail> {
    let n = std::cmp::min(got.len(), want.len());
    // outputs are never rewritten once drained: only the newest part needs comparing, except at the end
    let from = if final_ { 0 } else { n.saturating_sub(2 * CAP) };
    for i in from..n {
        if got[i] != want[i] {
            return Err(Fail { target: target.into(), prop: "C08", label: format!("C08+C10.{target}.stream-function"),
                what: format!("output sample {} is {}, the stream function of the input gives {}", i, got[i], want[i]), seed, params: params.into() });
        }
    }
    if got.len() > want.len() || (final_ && got.len() != want.len()) {
        return Err(Fail { target: target.into(), prop: "C08", label: format!("C08+C10.{target}.stream-function"),
            what: format!("{} output samples, the stream function of the input gives {}", got.len(), want.len()), seed, params: params.into() });
    }
    Ok(())
}

fn cmp_tags(target: &str, seed: u64, params: &str, got: &[TagRec], want: &[TagRec], upto: usize) -> Result<(), Fail> {
    let mut g: Vec<&TagRec> = got.iter().filter(|t| t.0 < upto).collect();
    let mut w: Vec<&TagRec> = want.iter().filter(|t| t.0 < upto).collect();
    g.sort();
    w.sort();
    if g != w {
        let extra: Vec<_> = g.iter().filter(|t| !w.contains(t)).take(3).collect();
        let missing: Vec<_> = w.iter().filter(|t| !g.contains(t)).take(3).collect();
        let dup = g.len() != w.len() && extra.is_empty() && missing.is_empty();
        return Err(Fail { target: target.into(), prop: "C12", label: format!("C12.{target}.tags-exactly-once-on-their-sample"),
            what: format!("tags differ below output index {}: unexpected {:?} missing {:?}{}", upto, extra, missing, if dup { " (duplicates)" } else { "" }), seed, params: params.into() });
    }
    Ok(())
}

static WAIT_SEEN: std::sync::Mutex<std::collections::BTreeMap<String, u32>> = std::sync::Mutex::new(std::collections::BTreeMap::new());
static WAIT_PROBES: std::sync::atomic::AtomicUsize = std::sync::atomic::AtomicUsize::new(0);

/// one step of work() with the C09/C15 observations: returns (verdict name, progress made)
fn step<B: Block>(b: &mut B, target: &str, seed: u64, params: &str, before: (usize, usize), after: &dyn Fn() -> (usize, usize), state_changed: bool) -> Result<String, Fail> {
    let r = std::panic::catch_unwind(std::panic::AssertUnwindSafe(|| match b.work() {
        Ok(BlockRet::Again) => "Again".to_string(),
        Ok(BlockRet::EOF) => "EOF".to_string(),
        Ok(BlockRet::Pending) => "Pending".to_string(),
        Ok(BlockRet::WaitForStream(w, n)) => {
            // C09: a wait that the named stream already satisfies is untruthful (the scheduler would spin).  Timing probe: a
            // genuine wait takes the stream's 100 ms timeout.  Probed only where it can matter (the amount asked for is
            // within what the input holds or the output has free -- otherwise no stream can satisfy it already), at most
            // twice per (target, amount, situation) and 80 times per process.
            let holds = CAP.saturating_sub(before.0);
            let room = CAP.saturating_sub(before.1);
            let key = format!("{target}/{n}/{}/{}", holds >= n, room >= n);
            let due = (holds >= n || room >= n) && {
                let mut m = WAIT_SEEN.lock().unwrap();
                let c = m.entry(key).or_insert(0);
                *c += 1;
                *c <= 2
            };
            if due && WAIT_PROBES.fetch_add(1, std::sync::atomic::Ordering::Relaxed) < 80 && !wait_is_truthful(w, n) {
                format!("UntruthfulWait({n})")
            } else {
                format!("Wait({n})")
            }
        }
        Ok(BlockRet::WaitForFunc(_)) => "WaitForFunc".to_string(),
        Err(e) => format!("Err({e:?})"),
    }));
    match r {
        Err(_) => Err(Fail { target: target.into(), prop: "C15", label: format!("C15.{target}.work-does-not-panic"),
            what: "work() panicked".into(), seed, params: params.into() }),
        Ok(v) => {
            let a = after();
            if v.starts_with("UntruthfulWait") && a == before {
                // harmless if the following call gets somewhere; asked again with nothing changed, the same already satisfied
                // wait without progress means the block spins (C09)
                let again = std::panic::catch_unwind(std::panic::AssertUnwindSafe(|| match b.work() {
                    Ok(BlockRet::WaitForStream(w, n)) => !wait_is_truthful(w, n),
                    _ => false,
                })).unwrap_or(false);
                if again && after() == before {
                    return Err(Fail { target: target.into(), prop: "C09", label: format!("C09.{target}.wait-names-the-blocking-stream"),
                        what: format!("two calls in a row made no progress and answered {v}: the stream it names already offers that much (the wait returns at once), the block spins"), seed, params: params.into() });
                }
                return Ok("Wait(probed)".to_string());
            }
            if v == "Again" && a == before && !state_changed {
                return Err(Fail { target: target.into(), prop: "C09", label: format!("C09.{target}.again-means-progress"),
                    what: format!("work() answered Again but input free space and output fill are unchanged {:?}", a), seed, params: params.into() });
            }
            Ok(v)
        }
    }
}

// ------------------------------------------------------------------------------------------------ one-in one-out
enum Kind {
    Skip(usize),
    Delay(usize),
    Fir(Vec<u64>, usize),
    Resamp(usize, usize),
}

fn expect(kind: &Kind, fed: &[u64], fed_tags: &[TagRec]) -> (Vec<u64>, Vec<TagRec>, bool) {
    // returns (expected output for this input, expected tags, output-is-complete-when-input-drained)
    match kind {
        Kind::Skip(k) => (
            fed.iter().skip(*k).copied().collect(),
            fed_tags.iter().filter(|t| t.0 >= *k).map(|t| (t.0 - k, t.1.clone(), t.2.clone())).collect(),
            true,
        ),
        Kind::Delay(d) => {
            let mut o = vec![0u64; *d];
            o.extend_from_slice(fed);
            (o, fed_tags.iter().map(|t| (t.0 + d, t.1.clone(), t.2.clone())).collect(), true)
        }
        Kind::Fir(taps, deci) => {
            let nt = taps.len();
            let mut o = vec![];
            let mut i = 0;
            // one output per complete group of `deci` inputs (the decimation phase is kept)
            while (i + 1) * deci + nt - 1 <= fed.len() {
                let mut acc = 0u64;
                for k in 0..nt {
                    acc = acc.wrapping_add(fed[i * deci + k].wrapping_mul(taps[nt - 1 - k]));
                }
                o.push(acc);
                i += 1;
            }
            let consumed = o.len() * deci;
            (o, fed_tags.iter().filter(|t| t.0 < consumed).map(|t| (t.0 / deci, t.1.clone(), t.2.clone())).collect(), true)
        }
        Kind::Resamp(interp, deci) => {
            // output j is input floor(j * deci / interp); ceil(n * interp / deci) outputs for n inputs
            let n = fed.len();
            let total = (n * interp + deci - 1) / deci;
            ((0..total).map(|j| fed[j * deci / interp]).collect(), vec![], true)
        }
    }
}

fn run_1in1out(target: &str, seed: u64) -> Result<u64, Fail> {
    let mut rng = Rng(seed * 7919 + 17);
    let (w, r) = new_stream::<S>();
    let kind = match target {
        "skip" => Kind::Skip(rng.pick(&[0, 1, 3, 10, 999, 1000, 1500])),
        "delay" => Kind::Delay(rng.pick(&[0, 1, 2, 7, 999, 1000, 1001, 2500])),
        "fir" => {
            let nt = rng.pick(&[1, 2, 3, 5]);
            Kind::Fir((0..nt).map(|i| (i as u64 + 1) * 3 + 1).collect(), rng.pick(&[1, 1, 2, 3, 5]))
        }
        _ => {
            let pairs = [(1, 1), (2, 1), (3, 1), (1, 2), (1, 3), (2, 3), (3, 2), (4, 6), (7, 3), (5, 8)];
            let p = pairs[rng.below(pairs.len())];
            Kind::Resamp(p.0, p.1)
        }
    };
    let params = match &kind {
        Kind::Skip(k) => format!("skip={k}"),
        Kind::Delay(d) => format!("delay={d}"),
        Kind::Fir(t, d) => format!("taps={t:?} deci={d}"),
        Kind::Resamp(i, d) => format!("interp={i} deci={d}"),
    };
    let tag_every: u64 = if matches!(kind, Kind::Resamp(_, _)) { 0 } else { [1u64, 2, 3, 50][rng.below(4)] };
    // the block under test, as a boxed closure set: we need work() and the output stream
    enum B {
        Skip(Skip<S>),
        Delay(Delay<S>),
        Fir(FirFilter<S>),
        Rr(RationalResampler<S>),
    }
    let (mut blk, out) = match &kind {
        Kind::Skip(k) => {
            let (b, o) = Skip::new(r, *k);
            (B::Skip(b), o)
        }
        Kind::Delay(d) => {
            let (b, o) = Delay::new(r, *d);
            (B::Delay(b), o)
        }
        Kind::Fir(t, d) => {
            let taps: Vec<S> = t.iter().map(|x| mk(*x)).collect();
            let (b, o) = FirFilterBuilder::new(&taps).deci(*d).build(r);
            (B::Fir(b), o)
        }
        Kind::Resamp(i, d) => {
            let (b, o) = RationalResampler::new(r, *i, *d).unwrap();
            (B::Rr(b), o)
        }
    };
    let mut next = 1u64;
    let (mut fed, mut fed_tags, mut got, mut got_tags) = (vec![], vec![], vec![], vec![]);
    let style = rng.below(4); // 0: balanced, 1: output kept nearly full, 2: input kept nearly full, 3: tiny steps
    let steps = 60;
    let mut works = 0u64;
    for s in 0..steps + 40 {
        let feeding = s < steps;
        if feeding {
            let k = match style {
                1 => rng.pick(&[0, 1, 5, 300, 1000]),
                2 => rng.pick(&[300, 1000, 1000]),
                3 => rng.pick(&[0, 1, 1, 2, 3]),
                _ => rng.pick(&[0, 1, 2, 7, 100, 500, 1000]),
            };
            feed(&w, k, &mut next, tag_every, &mut fed, &mut fed_tags);
        }
        let nwork = if feeding { 1 + rng.below(3) } else { 3 };
        for _ in 0..nwork {
            let before = (w.free(), readable(&out));
            let wf = &w;
            let of = &out;
            let after = || (wf.free(), readable(of));
            match &mut blk {
                B::Skip(b) => step(b, target, seed, &params, before, &after, false)?,
                B::Delay(b) => step(b, target, seed, &params, before, &after, false)?,
                B::Fir(b) => step(b, target, seed, &params, before, &after, false)?,
                B::Rr(b) => step(b, target, seed, &params, before, &after, false)?,
            };
            works += 1;
        }
        let j = if !feeding {
            CAP
        } else {
            match style {
                1 => rng.pick(&[0, 0, 1, 2, 3]),
                2 => rng.pick(&[0, 100, 1000]),
                3 => rng.pick(&[0, 1, 2]),
                _ => rng.pick(&[0, 1, 10, 400, 1000]),
            }
        };
        drain(&out, j, &mut got, &mut got_tags);
        let (want, want_tags, _) = expect(&kind, &fed, &fed_tags);
        cmp_prefix(target, seed, &params, &got, &want, false)?;
        cmp_tags(target, seed, &params, &got_tags, &want_tags, got.len())?;
    }
    let (want, want_tags, _) = expect(&kind, &fed, &fed_tags);
    cmp_prefix(target, seed, &params, &got, &want, true)?;
    cmp_tags(target, seed, &params, &got_tags, &want_tags, usize::MAX)?;
    Ok(works)
}

// ------------------------------------------------------------------------------------------------ VectorSource
fn run_vsrc(seed: u64) -> Result<u64, Fail> {
    let target = "vsrc";
    let mut rng = Rng(seed * 104729 + 5);
    let len = rng.pick(&[0, 1, 2, 3, 250, 500, 999, 1000, 1001, 2300]);
    let reps = rng.pick(&[0, 1, 2, 3, 5, 9999]);
    let infinite = reps == 9999;
    let params = format!("len={len} repeat={}", if infinite { "infinite".into() } else { reps.to_string() });
    let data: Vec<S> = (0..len).map(|i| mk(i as u64 + 1)).collect();
    let (mut b, out) = VectorSourceBuilder::new(data)
        .repeat(if infinite { Repeat::infinite() } else { Repeat::finite(reps as u64) })
        .build();
    let (mut got, mut got_tags) = (vec![], vec![]);
    let mut eof_at: Option<usize> = None;
    let mut works = 0u64;
    let total = if infinite { usize::MAX } else { len * reps };
    let finish_rounds = if infinite { 10 } else { total / 500 + 10 };
    let style = rng.below(3);
    for _ in 0..120 {
        let before = (0usize, readable(&out));
        let of = &out;
        let after = || (0usize, readable(of));
        let r = std::panic::catch_unwind(std::panic::AssertUnwindSafe(|| match b.work() {
            Ok(BlockRet::Again) => "Again",
            Ok(BlockRet::EOF) => "EOF",
            Ok(BlockRet::WaitForStream(_, _)) => "Wait",
            Ok(_) => "Other",
            Err(_) => "Err",
        }));
        works += 1;
        let v = match r {
            Err(_) => return Err(Fail { target: target.into(), prop: "C16", label: "C16.vsrc.work-does-not-panic".into(), what: "work() panicked".into(), seed, params }),
            Ok(v) => v,
        };
        let emitted = got.len() + after().1;
        if v == "Again" && after() == before {
            return Err(Fail { target: target.into(), prop: "C09", label: "C09.vsrc.again-means-progress".into(), what: "Again without producing".into(), seed, params });
        }
        if v == "EOF" {
            if infinite && len > 0 {
                return Err(Fail { target: target.into(), prop: "C16", label: "C16.vsrc.infinite-never-eof".into(), what: format!("EOF from an infinite repeat after {emitted} samples"), seed, params });
            }
            if len > 0 && emitted != total {
                return Err(Fail { target: target.into(), prop: "C16", label: "C16.vsrc.eof-only-when-everything-emitted".into(),
                    what: format!("EOF after {emitted} samples, {total} expected"), seed, params });
            }
            eof_at.get_or_insert(emitted);
        } else if !infinite && len > 0 && emitted == total {
            return Err(Fail { target: target.into(), prop: "C16", label: "C16.vsrc.eof-exactly-when-everything-emitted".into(),
                what: format!("all {total} samples emitted but the verdict is {v}, not EOF"), seed, params });
        }
        let j = match style { 0 => CAP, 1 => rng.pick(&[0, 1, 3, 500]), _ => rng.pick(&[0, 0, 250, 1000]) };
        drain(&out, j, &mut got, &mut got_tags);
        if got.len() > 30 * CAP { break; }
    }
    drain(&out, CAP, &mut got, &mut got_tags);
    if !infinite || len == 0 {
        // finish
        for _ in 0..finish_rounds {
            let _ = b.work();
            drain(&out, CAP, &mut got, &mut got_tags);
        }
        if len == 0 || reps == 0 {
            if !got.is_empty() {
                return Err(Fail { target: target.into(), prop: "C16", label: "C08+C10+C16.vsrc.emits-data-repeat-times".into(), what: format!("{} samples from an empty source", got.len()), seed, params });
            }
            return Ok(works);
        }
        if got.len() != total {
            return Err(Fail { target: target.into(), prop: "C16", label: "C08+C10+C16.vsrc.emits-data-repeat-times".into(),
                what: format!("{} samples emitted in total, {} expected", got.len(), total), seed, params });
        }
    }
    for (i, v) in got.iter().enumerate() {
        if *v != (i % len) as u64 + 1 {
            return Err(Fail { target: target.into(), prop: "C16", label: "C08+C10+C16.vsrc.emits-data-repeat-times".into(),
                what: format!("output sample {i} is {v}, expected {}", (i % len) as u64 + 1), seed, params });
        }
    }
    // marker tags: once per repetition on its first sample
    let nrep_started = (got.len() + len - 1) / len;
    let mut want: Vec<TagRec> = vec![];
    for j in 0..nrep_started {
        want.push((j * len, "VectorSource::start".into(), tv(&TagValue::Bool(true))));
        want.push((j * len, "VectorSource::repeat".into(), tv(&TagValue::U64(j as u64))));
        if j == 0 {
            want.push((0, "VectorSource::first".into(), tv(&TagValue::Bool(true))));
        }
    }
    let mut g = got_tags.clone();
    g.sort();
    want.sort();
    if g != want {
        let extra: Vec<_> = g.iter().filter(|t| !want.contains(t)).take(3).collect();
        let missing: Vec<_> = want.iter().filter(|t| !g.contains(t)).take(3).collect();
        return Err(Fail { target: target.into(), prop: "C16", label: "C12+C16.vsrc.marker-tags-once-per-repetition-on-its-first-sample".into(),
            what: format!("marker tags: unexpected {:?} missing {:?} ({} vs {})", extra, missing, g.len(), want.len()), seed, params });
    }
    Ok(works)
}

// ------------------------------------------------------------------------------------------------ VecToStream
fn run_v2s(seed: u64) -> Result<u64, Fail> {
    let target = "v2s";
    let mut rng = Rng(seed * 15485863 + 3);
    let params = String::new();
    let (tx, rx) = new_nocopy_stream::<Vec<S>>();
    let mut tx = Some(tx);
    let (mut b, out) = VecToStream::new(rx);
    let (mut got, mut got_tags) = (vec![], vec![]);
    let mut want: Vec<u64> = vec![];
    let mut want_tags: Vec<TagRec> = vec![];
    let mut next = 1u64;
    let mut works = 0u64;
    let style = rng.below(3);
    for s in 0..70 {
        if s < 45 {
            for _ in 0..rng.below(3) {
                let n = rng.pick(&[0, 1, 2, 5, 300, 700, 999, 1000]);
                let pk: Vec<S> = (0..n).map(|_| { let v = next; next += 1; mk(v) }).collect();
                if n > 0 {
                    want_tags.push((want.len(), "VecToStream::start".into(), tv(&TagValue::U64(n as u64))));
                    want_tags.push((want.len() + n - 1, "VecToStream::end".into(), tv(&TagValue::U64(n as u64))));
                }
                want.extend(pk.iter().map(|x| x.v()));
                tx.as_ref().unwrap().push(pk, &[]);
            }
        } else if tx.is_some() {
            // the upstream block is done and goes away
            tx = None;
        }
        for _ in 0..(1 + rng.below(3)) {
            let before = (0usize, readable(&out));
            let of = &out;
            let after = || (0usize, readable(of));
            // popping an (empty) packet is progress too: count queue length via verdict sequence instead
            let r = std::panic::catch_unwind(std::panic::AssertUnwindSafe(|| match b.work() {
                Ok(BlockRet::Again) => "Again",
                Ok(BlockRet::WaitForStream(w, n)) => {
                    // a wait for an amount the output already has free (or a packet the queue already holds) is untruthful;
                    // timing probe as in step(), where it can matter, twice per (amount, situation)
                    // (the wait may name the output -- untruthful if that much is free -- or the packet queue -- untruthful
                    // if a packet is waiting; either way the probe decides)
                    let room = CAP.saturating_sub(before.1);
                    let due = {
                        let mut m = WAIT_SEEN.lock().unwrap();
                        let c = m.entry(format!("v2s/{n}/{}", room >= n)).or_insert(0);
                        *c += 1;
                        *c <= 2
                    };
                    if due && WAIT_PROBES.fetch_add(1, std::sync::atomic::Ordering::Relaxed) < 80 && !wait_is_truthful(w, n) { "UntruthfulWait" } else { "Wait" }
                }
                Ok(_) => "Other",
                Err(_) => "Err",
            }));
            works += 1;
            if r.is_err() {
                return Err(Fail { target: target.into(), prop: "C15", label: "C15.v2s.work-does-not-panic".into(), what: "work() panicked".into(), seed, params });
            }
            if matches!(r, Ok("UntruthfulWait")) && readable(&out) == before.1
                && std::panic::catch_unwind(std::panic::AssertUnwindSafe(|| match b.work() {
                    Ok(BlockRet::WaitForStream(w, n)) => !wait_is_truthful(w, n),
                    _ => false,
                })).unwrap_or(false)
                && readable(&out) == before.1
            {
                return Err(Fail { target: target.into(), prop: "C09", label: "C09.v2s.wait-names-the-blocking-stream".into(),
                    what: format!("two calls in a row made no progress and reported a wait that the stream they name already satisfies ({} samples free in the output): the block spins", CAP - before.1), seed, params });
            }
            let _ = (before, after());
            // C09: a runner asks eof() after a wait verdict and retires the block when it says yes; it must not say yes
            // while it still owes data it has taken from its input
            if tx.is_none() && matches!(r, Ok("Wait") | Ok("UntruthfulWait")) {
                use rustradio::block::BlockEOF;
                if b.eof() {
                    let emitted = got.len() + readable(&out);
                    if emitted < want.len() {
                        return Err(Fail { target: target.into(), prop: "C09", label: "C09.v2s.eof-only-when-everything-is-out".into(),
                            what: format!("upstream gone, work() reported a wait, eof() says true, but only {} of {} samples have been emitted", emitted, want.len()), seed, params });
                    }
                }
            }
        }
        let j = if s >= 45 { CAP } else { match style { 0 => CAP, 1 => rng.pick(&[0, 1, 2, 10]), _ => rng.pick(&[0, 0, 400, 1000]) } };
        drain(&out, j, &mut got, &mut got_tags);
        cmp_prefix(target, seed, &params, &got, &want, false)?;
        cmp_tags(target, seed, &params, &got_tags, &want_tags, got.len())?;
    }
    for _ in 0..400 {
        if got.len() >= want.len() { break; }
        let _ = b.work();
        drain(&out, CAP, &mut got, &mut got_tags);
    }
    cmp_prefix(target, seed, &params, &got, &want, true)?;
    cmp_tags(target, seed, &params, &got_tags, &want_tags, usize::MAX)?;
    Ok(works)
}

// ------------------------------------------------------------------------------------------------ consts
fn run_consts(seed: u64) -> Result<u64, Fail> {
    let mut rng = Rng(seed + 99);
    let (mut cs, out) = ConstantSource::new(mk(42));
    let mut got = vec![];
    let mut gt = vec![];
    for _ in 0..20 {
        let _ = cs.work();
        if readable(&out) != CAP {
            return Err(Fail { target: "consts".into(), prop: "C10", label: "C10.constant_source.fills-all-free-space".into(), what: format!("{} of {} after work()", readable(&out), CAP), seed, params: String::new() });
        }
        drain(&out, rng.pick(&[0, 1, 500, 1000]), &mut got, &mut gt);
    }
    if got.iter().any(|v| *v != 42) || !gt.is_empty() {
        return Err(Fail { target: "consts".into(), prop: "C08", label: "C08+C10.constant_source.only-the-constant".into(), what: "a sample differs from the constant, or a tag appeared".into(), seed, params: String::new() });
    }
    let (w, r) = new_stream::<S>();
    let mut ns = NullSink::new(r);
    let (mut n, mut f, mut ft) = (1u64, vec![], vec![]);
    for _ in 0..20 {
        feed(&w, rng.pick(&[0, 1, 999, 1000]), &mut n, 3, &mut f, &mut ft);
        let _ = ns.work();
        if w.free() != CAP {
            return Err(Fail { target: "consts".into(), prop: "C10", label: "C10.null_sink.discards-everything-offered".into(), what: format!("{} free after work()", w.free()), seed, params: String::new() });
        }
    }
    Ok(40)
}

// ------------------------------------------------------------------------------------------------ Repeat
fn run_repeat() -> Result<u64, Fail> {
    for n in 0..40u64 {
        let mut r = Repeat::finite(n);
        let mut emitted = 0u64;
        let mut guard = 0;
        // the documented client protocol: emit once per !done(), stop when again() is false
        while !r.done() {
            emitted += 1;
            let more = std::panic::catch_unwind(std::panic::AssertUnwindSafe(|| r.again()));
            match more {
                Err(_) => return Err(Fail { target: "repeat".into(), prop: "C16", label: "C16.again.decrements-saturating".into(), what: format!("again() panicked, finite({n})"), seed: 0, params: String::new() }),
                Ok(false) => break,
                Ok(true) => {}
            }
            guard += 1;
            if guard > 100 { break; }
        }
        if emitted != n || r.count() != n {
            return Err(Fail { target: "repeat".into(), prop: "C16", label: "C16.again.continue-iff-more".into(), what: format!("finite({n}) ran {emitted} times, count() = {}", r.count()), seed: 0, params: String::new() });
        }
        // any further calls: no panic, still done
        for _ in 0..3 {
            if std::panic::catch_unwind(std::panic::AssertUnwindSafe(|| r.again())).is_err() {
                return Err(Fail { target: "repeat".into(), prop: "C16", label: "C16.again.decrements-saturating".into(), what: format!("again() after exhaustion panicked, finite({n})"), seed: 0, params: String::new() });
            }
        }
        if !r.done() {
            return Err(Fail { target: "repeat".into(), prop: "C16", label: "C16.done".into(), what: format!("finite({n}) not done after {n} repetitions"), seed: 0, params: String::new() });
        }
    }
    let mut r = Repeat::infinite();
    for _ in 0..1000 {
        if r.done() || !r.again() {
            return Err(Fail { target: "repeat".into(), prop: "C16", label: "C16.repeat.infinite".into(), what: "infinite repeat ended".into(), seed: 0, params: String::new() });
        }
    }
    Ok(40)
}


// ------------------------------------------------------------------------------------------------ HdlcDeframer
fn crc16_x25(data: &[u8]) -> u16 {
    let mut fcs: u16 = 0xffff;
    for b in data {
        fcs ^= *b as u16;
        for _ in 0..8 {
            fcs = if fcs & 1 == 1 { (fcs >> 1) ^ 0x8408 } else { fcs >> 1 };
        }
    }
    fcs ^ 0xffff
}
/// reference HDLC framer: flag, bytes LSB first with bit stuffing after five ones, FCS low byte first, flag
fn hdlc_frame(payload: &[u8], with_crc: bool, out: &mut Vec<u8>) {
    hdlc_frame2(payload, with_crc, true, out)
}
/// `open`: emit the opening flag (false: the previous frame's closing flag is shared)
fn hdlc_frame2(payload: &[u8], with_crc: bool, open: bool, out: &mut Vec<u8>) {
    hdlc_frame3(payload, with_crc, open, None, out)
}
/// `flip`: one payload bit is inverted on the wire AFTER the checksum was computed (a transmission error)
fn hdlc_frame3(payload: &[u8], with_crc: bool, open: bool, flip: Option<usize>, out: &mut Vec<u8>) {
    let flag = [0u8, 1, 1, 1, 1, 1, 1, 0];
    if open {
        out.extend_from_slice(&flag);
    }
    let mut bytes = payload.to_vec();
    if with_crc {
        let c = crc16_x25(payload);
        bytes.push((c & 0xff) as u8);
        bytes.push((c >> 8) as u8);
    }
    if let Some(k) = flip {
        bytes[k / 8] ^= 1 << (k % 8);
    }
    let mut ones = 0;
    for b in bytes {
        for i in 0..8 {
            let bit = (b >> i) & 1;
            out.push(bit);
            if bit == 1 {
                ones += 1;
                if ones == 5 {
                    out.push(0);
                    ones = 0;
                }
            } else {
                ones = 0;
            }
        }
    }
    out.extend_from_slice(&flag);
}

fn run_hdlc(seed: u64) -> Result<u64, Fail> {
    let target = "hdlc";
    let mut rng = Rng(seed * 2147483647 + 11);
    let with_crc = rng.below(4) != 0;
    let min_size = rng.pick(&[0, 1, 2, 3]);
    let max_size = rng.pick(&[4, 8, 20]);
    // single-bit repair: a frame with ONE wrong payload bit is delivered as the original when fixing is on, dropped when off
    let fix = with_crc && rng.below(2) == 0;
    let params = format!("crc={with_crc} fix_bits={fix} min={min_size} max={max_size}");
    let (w, r) = new_stream::<u8>();
    let (mut d, out) = HdlcDeframer::new(r, min_size, max_size);
    d.set_checksum(with_crc);
    d.set_fix_bits(fix);
    let mut bits: Vec<u8> = vec![];
    let mut want: Vec<Vec<u8>> = vec![];
    // noise preamble that contains no flag: alternate bits and a zero -- or key-up noise of 1..12 one-bits right in front
    // of the first flag (the hunt register starts as all ones: `1111110` is NOT a flag, its leading zero is missing)
    if rng.below(3) == 0 {
        for _ in 0..(1 + rng.below(12)) { bits.push(1); }
    } else {
        for i in 0..rng.below(12) { bits.push((i % 2) as u8); }
        bits.push(0);
    }
    let nframes = 1 + rng.below(5);
    let mut shared = false; // the bits so far end with a flag that the next frame may use as its opening flag
    for _ in 0..nframes {
        // every length 0..max+2 on the wire is reachable
        let len = if rng.below(2) == 0 { rng.pick(&[0, 1, 2, 3, 4, 5, 8, 9, 20, 21, 22]) } else { rng.below(max_size + 3) };
        let style = rng.below(4);
        let payload: Vec<u8> = (0..len).map(|_| match style { 0 => 0xff, 1 => 0x7e, 2 => 0x3f, _ => (rng.next() & 0xff) as u8 }).collect();
        let on_wire = len + if with_crc { 2 } else { 0 };
        // what the documented deframer must deliver for this frame
        let deliver = on_wire >= min_size && on_wire <= max_size && (!with_crc || on_wire >= 2);
        let flip = if with_crc && len > 0 && rng.below(3) == 0 { Some(rng.below(8 * len)) } else { None };
        hdlc_frame3(&payload, with_crc, !(shared && rng.below(2) == 0), flip, &mut bits);
        if deliver && (flip.is_none() || fix) { want.push(payload); }
        // idle: 0..3 extra flags or some zeros (never 6 ones directly before a flag)
        match rng.below(4) {
            0 => { shared = true; }
            1 => {
                bits.extend_from_slice(&[0, 1, 1, 1, 1, 1, 1, 0]);
                shared = true;
            }
            // mark idle / abort: k one-bits between two frames (7 or more abort and send the deframer hunting again; fewer
            // are a too-short frame).  Not 6: `0 111111 0` would be a flag sharing both its zeros.  Only where stray bits
            // cannot be a deliverable frame (a checksum or a minimum size is configured).
            3 if with_crc || min_size >= 1 => {
                for _ in 0..rng.pick(&[1, 2, 3, 4, 5, 7, 8, 13, 20]) { bits.push(1); }
                shared = false;
            }
            _ => { bits.extend_from_slice(&[0, 0, 1, 0]); shared = false; }
        }
    }
    // after the last frame: sometimes a flag that shares its leading zero with the closing flag (`1111110`): encloses no
    // bits at all, must be harmless
    if shared && rng.below(2) == 0 {
        bits.extend_from_slice(&[1, 1, 1, 1, 1, 1, 0]);
    }
    bits.extend_from_slice(&[0, 0, 0, 0]);
    // feed in random pieces
    let mut got: Vec<Vec<u8>> = vec![];
    let mut pos = 0;
    let mut works = 0u64;
    let piece_style = rng.below(3);
    while pos < bits.len() {
        let k = match piece_style { 0 => bits.len(), 1 => 1 + rng.below(3), _ => 1 + rng.below(17) };
        let k = std::cmp::min(k, bits.len() - pos);
        {
            let mut wb = w.write_buf().unwrap();
            wb.fill_from_slice(&bits[pos..pos + k]);
            wb.produce(k, &[]);
        }
        pos += k;
        let r = std::panic::catch_unwind(std::panic::AssertUnwindSafe(|| { let _ = d.work(); }));
        works += 1;
        if r.is_err() {
            return Err(Fail { target: target.into(), prop: "C15", label: "C15.hdlc.work-does-not-panic".into(), what: format!("work() panicked after {pos} of {} bits", bits.len()), seed, params });
        }
        while let Some((p, _)) = out.pop() { got.push(p); }
    }
    if min_size == 0 && !with_crc {
        // Two adjacent flags (idle fill, or the closing flag of one frame followed by the opening flag of the next)
        // enclose zero bits: with min_size 0 and no checksum that IS a zero-length frame within the configured
        // limits, so empty frames are inherent to this configuration and are not compared.
        got.retain(|p| !p.is_empty());
        want.retain(|p| !p.is_empty());
    }
    if got != want {
        return Err(Fail { target: target.into(), prop: "C13", label: "C13.hdlc.every-valid-frame-exactly-once-nothing-else".into(),
            what: format!("deframed {:?}, framed and deliverable were {:?} (piece style {piece_style})", got.iter().map(|p| p.len()).collect::<Vec<_>>(), want.iter().map(|p| p.len()).collect::<Vec<_>>()), seed, params });
    }
    Ok(works)
}

// ------------------------------------------------------------------------------------------------ derive-generated sync work()
// The work() of "sync" blocks is generated by the derive macro; no verifier in this sandbox can take it (DESIGN.md,
// C19 n/a).  BOUNDED stand-in: representative sync blocks (1->2 Tee, 2->1 Add / Xor, 1->1 AddConst / XorConst /
// NrziDecode-like stateful kernel via Delay-free identity) under drip-feed schedules: sample-wise function, one
// output per input, tags of the first input on the same output index exactly once, verdict sanity.
fn wait_is_truthful(w: &dyn rustradio::stream::StreamWait, need: usize) -> bool {
    // a request the stream already satisfies returns at once; a genuine one takes the 100 ms timeout
    let t = std::time::Instant::now();
    let _ = w.wait(need);
    t.elapsed() >= std::time::Duration::from_millis(40)
}

fn run_sync(seed: u64) -> Result<u64, Fail> {
    let target = "sync";
    let mut rng = Rng(seed * 6700417 + 29);
    let which = rng.below(5);
    let params = format!("block={}", ["Tee", "Add", "Xor", "AddConst", "XorConst"][which]);
    let two_in = which == 1 || which == 2;
    let (wa, ra) = new_stream::<S>();
    let (wb, rb) = new_stream::<S>();
    enum B { Tee(Tee<S>), Add(Add<S, S, S>), Xor(Xor<S>), AddC(AddConst<S>), XorC(XorConst<S>) }
    let (mut blk, out1, out2): (B, ReadStream<S>, Option<ReadStream<S>>) = match which {
        0 => { let (b, o1, o2) = Tee::new(ra); (B::Tee(b), o1, Some(o2)) }
        1 => { let (b, o) = Add::new(ra, rb); (B::Add(b), o, None) }
        2 => { let (b, o) = Xor::new(ra, rb); (B::Xor(b), o, None) }
        3 => { let (b, o) = AddConst::new(ra, mk(1000)); (B::AddC(b), o, None) }
        _ => { let (b, o) = XorConst::new(ra, mk(0xff)); (B::XorC(b), o, None) }
    };
    let (mut na, mut nb) = (1u64, 500_000u64);
    let (mut fa, mut fa_tags, mut fb, mut fb_tags) = (vec![], vec![], vec![], vec![]);
    let (mut g1, mut g1t, mut g2, mut g2t) = (vec![], vec![], vec![], vec![]);
    let tag_every = [1u64, 2, 3, 50][rng.below(4)];
    let style = rng.below(4);
    let mut works = 0u64;
    let mut wait_checks = 0;
    for s in 0..100 {
        let feeding = s < 60;
        if feeding {
            let k = match style { 1 => rng.pick(&[0, 1, 5, 300, 1000]), 2 => rng.pick(&[300, 1000, 1000]), 3 => rng.pick(&[0, 1, 1, 2, 3]), _ => rng.pick(&[0, 1, 2, 7, 100, 500, 1000]) };
            feed(&wa, k, &mut na, tag_every, &mut fa, &mut fa_tags);
            if two_in {
                // the second input lags or leads independently
                let k2 = rng.pick(&[0, 0, 1, 3, 200, 1000]);
                feed(&wb, k2, &mut nb, 0, &mut fb, &mut fb_tags);
            }
        } else if two_in && fb.len() < fa.len() {
            let need = fa.len() - fb.len();
            feed(&wb, need, &mut nb, 0, &mut fb, &mut fb_tags);
        } else if two_in && fa.len() < fb.len() {
            let need = fb.len() - fa.len();
            feed(&wa, need, &mut na, tag_every, &mut fa, &mut fa_tags);
        }
        for _ in 0..(if feeding { 1 + rng.below(3) } else { 3 }) {
            let before = (wa.free(), wb.free(), readable(&out1), out2.as_ref().map(|o| readable(o)).unwrap_or(0));
            let r = std::panic::catch_unwind(std::panic::AssertUnwindSafe(|| {
                let ret = match &mut blk { B::Tee(b) => b.work(), B::Add(b) => b.work(), B::Xor(b) => b.work(), B::AddC(b) => b.work(), B::XorC(b) => b.work() };
                match ret {
                    Ok(BlockRet::Again) => (0u8, true),
                    Ok(BlockRet::WaitForStream(w, need)) => (1u8, if wait_checks < 2 { wait_is_truthful(w, need) } else { true }),
                    Ok(_) => (2u8, true),
                    Err(_) => (3u8, true),
                }
            }));
            works += 1;
            let (verdict, truthful) = match r {
                Err(_) => return Err(Fail { target: target.into(), prop: "C15", label: "C15.sync.work-does-not-panic".into(), what: "generated work() panicked".into(), seed, params }),
                Ok(v) => v,
            };
            let after = (wa.free(), wb.free(), readable(&out1), out2.as_ref().map(|o| readable(o)).unwrap_or(0));
            if verdict == 0 && after == before {
                return Err(Fail { target: target.into(), prop: "C09", label: "C09.sync.again-means-progress".into(), what: format!("Again without progress {:?}", after), seed, params });
            }
            if verdict == 1 && after == before && wait_checks < 2 {
                wait_checks += 1;
                if !truthful {
                    return Err(Fail { target: target.into(), prop: "C09", label: "C09.sync.wait-names-the-blocking-stream".into(),
                        what: format!("waits on a stream that already offers what was asked for (input free {}/{} output fill {}/{})", after.0, after.1, after.2, after.3), seed, params });
                }
            }
        }
        let j = if !feeding { CAP } else { match style { 1 => rng.pick(&[0, 0, 1, 2, 3]), 2 => rng.pick(&[0, 100, 1000]), 3 => rng.pick(&[0, 1, 2]), _ => rng.pick(&[0, 1, 10, 400, 1000]) } };
        drain(&out1, j, &mut g1, &mut g1t);
        if let Some(o2) = &out2 {
            let j2 = if !feeding { CAP } else { rng.pick(&[0, 1, 5, 1000]) };
            drain(o2, j2, &mut g2, &mut g2t);
        }
        let n = if two_in { std::cmp::min(fa.len(), fb.len()) } else { fa.len() };
        let want: Vec<u64> = (0..n).map(|i| match which { 0 => fa[i], 1 => fa[i].wrapping_add(fb[i]), 2 => fa[i] ^ fb[i], 3 => fa[i].wrapping_add(1000), _ => fa[i] ^ 0xff }).collect();
        let want_tags: Vec<TagRec> = fa_tags.iter().filter(|t| t.0 < n).cloned().collect();
        cmp_prefix(target, seed, &params, &g1, &want, false)?;
        cmp_tags(target, seed, &params, &g1t, &want_tags, g1.len())?;
        if out2.is_some() {
            cmp_prefix(target, seed, &params, &g2, &want, false)?;
        }
    }
    let n = if two_in { std::cmp::min(fa.len(), fb.len()) } else { fa.len() };
    if g1.len() != n {
        return Err(Fail { target: target.into(), prop: "C08", label: "C08+C10.sync.stream-function".into(), what: format!("{} outputs for {} complete input tuples", g1.len(), n), seed, params });
    }
    Ok(works)
}

#[test]
fn bx_blocks() {
    std::panic::set_hook(Box::new(|i| {
        if let Some(l) = i.location() {
            if l.file().starts_with("tests/") {
                eprintln!("harness panic: {i}");
            }
        }
    }));
    let targets = std::env::var("BX_TARGETS").unwrap_or_else(|_| "skip,delay,fir,resampler,vsrc,v2s,consts,repeat,hdlc,sync".into());
    let n: u64 = std::env::var("BX_N").ok().and_then(|s| s.parse().ok()).unwrap_or(40);
    let base: u64 = std::env::var("VERIF_SEED").ok().and_then(|s| s.parse().ok()).unwrap_or(1);
    let only: Option<u64> = std::env::var("BX_ONLY_SEED").ok().and_then(|s| s.parse().ok());
    let mut failed = false;
    for t in targets.split(',') {
        let mut runs = 0u64;
        let mut works = 0u64;
        let mut res: Result<(), Fail> = Ok(());
        let seeds: Vec<u64> = match only { Some(s) => vec![s], None => (0..n).map(|i| base * 1000 + i).collect() };
        for seed in seeds {
            let r = match t {
                "skip" | "delay" | "fir" | "resampler" => run_1in1out(t, seed),
                "vsrc" => run_vsrc(seed),
                "v2s" => run_v2s(seed),
                "consts" => run_consts(seed),
                // cheap: twenty runs per schedule slot
                "hdlc" => (|| { let mut w = 0; for k in 0..20 { w += run_hdlc(seed * 20 + k)?; } Ok(w) })(),
                "sync" => run_sync(seed),
                "repeat" => { if runs > 0 { break; } run_repeat() }
                _ => Ok(0),
            };
            runs += 1;
            match r {
                Ok(w) => works += w,
                Err(f) => { res = Err(f); break; }
            }
        }
        println!("BXSTAT {{\"target\":\"{}\",\"schedules\":{},\"work_calls\":{},\"stream_capacity\":{}}}", t, runs, works, CAP);
        if let Err(f) = res {
            f.print();
            failed = true;
        }
    }
    if failed {
        panic!("bounded block contract check failed");
    }
}
