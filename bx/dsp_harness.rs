// bx dsp harness: BOUNDED chunk-independence check of floating-point blocks (never counted as proof).
//
// No verifier in this sandbox reasons about floating point (C11 n/a), so for these blocks C08 ("output independent of
// chunking") is checked differentially on the real code: the same pseudo-random input is run (A) with ample output
// space, drained after every call, and (B) under an adversarial drip-feed schedule -- output allowed to fill up
// completely, then drained a few samples at a time, then input fed a few samples at a time.  The two outputs must be
// bit-identical (f32 compared by bit pattern).  `Again` must come with progress; work() must not panic.
// First divergence per target is printed as `BXFAIL {json}`.
use rustradio::block::{Block, BlockRet};
use rustradio::blocks::*;
use rustradio::stream::{new_stream, ReadStream, Tag, TagValue, WriteStream};
use rustradio::window::WindowType;
use rustradio::{Complex, Float};

struct Rng(u64);
impl Rng {
    fn next(&mut self) -> u64 {
        self.0 ^= self.0 << 13;
        self.0 ^= self.0 >> 7;
        self.0 ^= self.0 << 17;
        self.0
    }
    fn below(&mut self, n: usize) -> usize {
        (self.next() % (n as u64).max(1)) as usize
    }
    fn pick(&mut self, xs: &[usize]) -> usize {
        xs[self.below(xs.len())]
    }
}

trait Bits: Copy {
    fn bits(&self) -> u64;
}
impl Bits for Float {
    fn bits(&self) -> u64 {
        self.to_bits() as u64
    }
}
impl Bits for u8 {
    fn bits(&self) -> u64 {
        *self as u64
    }
}
impl Bits for Complex {
    fn bits(&self) -> u64 {
        ((self.re.to_bits() as u64) << 32) | self.im.to_bits() as u64
    }
}

/// is input sample `i` tagged?  (sparse, with clusters, so that tags fall on either side of every kind of chunk boundary)
fn tagged(i: usize, dense: bool) -> bool {
    let h = (i as u64).wrapping_mul(0x9E3779B97F4A7C15) >> 52;
    // ... and denser in every fourth stretch of 50 000 samples, so that the few thousand samples which the drip-fed
    // schedule covers a few at a time hold tags as well
    h < 3 || (i % 4099) < 3 || (dense && (i / 50_000) % 4 == 2 && i % 61 == 7)
}
fn feed<T: Copy>(w: &WriteStream<T>, data: &[T], pos: &mut usize, k: usize, dense: bool) -> usize {
    let mut wb = w.write_buf().unwrap();
    let n = k.min(wb.len()).min(data.len() - *pos);
    wb.fill_from_slice(&data[*pos..*pos + n]);
    let mut tags = vec![];
    for i in 0..n {
        if tagged(*pos + i, dense) {
            tags.push(Tag::new(i, "t", TagValue::U64((*pos + i) as u64)));
        }
    }
    wb.produce(n, &tags);
    *pos += n;
    n
}
/// output tags as (absolute output index, value = absolute input index it was put on)
fn drain<T: Bits>(r: &ReadStream<T>, j: usize, got: &mut Vec<u64>, otags: &mut Vec<(u64, u64)>) -> usize {
    let (rb, tags) = r.read_buf().unwrap();
    let n = j.min(rb.len());
    let base = got.len() as u64;
    for t in &tags {
        if t.pos() < n {
            if let TagValue::U64(v) = t.val() {
                otags.push((base + t.pos() as u64, *v));
            }
        }
    }
    for i in 0..n {
        got.push(rb.slice()[i].bits());
    }
    rb.consume(n);
    n
}
fn readable<T: Copy>(r: &ReadStream<T>) -> usize {
    r.read_buf().unwrap().0.len()
}

/// blocks that carry tags forward one-to-one
const ONE_TO_ONE_TAGS: [&str; 6] = ["fftfilt", "fftfiltc", "hilbert", "iir1", "slicer", "qdemod"];

struct Fail {
    target: String,
    prop: &'static str,
    label: String,
    what: String,
    seed: u64,
}
impl Fail {
    fn print(&self) {
        println!(
            "BXFAIL {{\"target\":\"{}\",\"property\":\"{}\",\"label\":\"{}\",\"what\":\"{}\",\"seed\":{}}}",
            self.target, self.prop, self.label, self.what.replace('"', "'"), self.seed
        );
    }
}

/// drive one block instance over `data`; `adversarial` selects schedule (B)
fn run<TI: Copy, TO: Bits>(
    target: &str, seed: u64, blk: &mut dyn Block, w: &WriteStream<TI>, out: &ReadStream<TO>, data: &[TI], adversarial: bool,
) -> Result<Vec<u64>, Fail> {
    run2(target, seed, blk, w, out, None, data, adversarial)
}

/// as `run`, with an optional second (clock) output, which the adversarial schedule drains more slowly than the first
fn run2<TI: Copy, TO: Bits>(
    target: &str, seed: u64, blk: &mut dyn Block, w: &WriteStream<TI>, out: &ReadStream<TO>, clk: Option<&ReadStream<Float>>, data: &[TI], adversarial: bool,
) -> Result<Vec<u64>, Fail> {
    // the generated loop of sync blocks filters the window's tag list once per SAMPLE (a TODO in the macro): dense tags
    // would make those targets take minutes
    let dense = ["fftfilt", "fftfiltc", "hilbert"].contains(&target);
    let mut got_clk: Vec<u64> = vec![];
    let mut otags: Vec<(u64, u64)> = vec![];
    let mut ctags: Vec<(u64, u64)> = vec![];
    let mut rng = Rng(seed * 48271 + 7);
    let mut pos = 0usize;
    let mut got: Vec<u64> = vec![];
    let mut idle = 0;
    // adversarial: 0 fill the output (feed all, drain nothing) | 1 output full: drain a few samples at a time | 2 stop
    // feeding, drain everything: the input backlog runs dry | 3 input scarce: feed a few samples at a time, drain
    // everything | 4 feed a few, drain a few | 5 flush
    let mut phase = 0;
    let mut phase_rounds = 0u64;
    let mut rounds = 0u64;
    loop {
        rounds += 1;
        if rounds > 2_000_000 {
            return Err(Fail { target: target.into(), prop: "C09", label: format!("C09.{target}.terminates"), what: "schedule did not finish".into(), seed });
        }
        // feed
        let k = if !adversarial { 1usize << 20 } else { match phase { 0 => 1 << 20, 1 => rng.pick(&[0, 0, 1000]), 2 => 0, 3 => rng.pick(&[0, 1, 2, 3, 17, 40]), 4 => rng.pick(&[0, 1, 2, 3, 17]), _ => 1 << 20 } };
        // while filling the output keep a reserve of input for the input-scarce phases
        let reserve = data.len() / 22;
        let k = if adversarial && phase < 3 { k.min((data.len() - reserve).saturating_sub(pos)) } else { k };
        let fed = feed(w, data, &mut pos, k, dense);
        // work
        let before = (w.free(), readable(out) + clk.map(readable).unwrap_or(0));
        let r = std::panic::catch_unwind(std::panic::AssertUnwindSafe(|| match blk.work() {
            Ok(BlockRet::Again) => 0u8,
            Ok(BlockRet::WaitForStream(_, _)) => 1,
            Ok(BlockRet::EOF) => 2,
            Ok(_) => 3,
            Err(_) => 4,
        }));
        let v = match r {
            Err(_) => return Err(Fail { target: target.into(), prop: "C15", label: format!("C15.{target}.work-does-not-panic"), what: format!("work() panicked (input pos {pos}, output fill {})", before.1), seed }),
            Ok(v) => v,
        };
        let after = (w.free(), readable(out) + clk.map(readable).unwrap_or(0));
        if v == 0 && after == before {
            return Err(Fail { target: target.into(), prop: "C09", label: format!("C09.{target}.again-means-progress"), what: format!("Again without progress (input free {} output fill {})", after.0, after.1), seed });
        }
        // drain
        let j = if !adversarial { usize::MAX } else { match phase { 0 => 0, 1 => rng.pick(&[0, 1, 2, 3, 7, 64]), 4 => rng.pick(&[0, 1, 5, 1000]), _ => usize::MAX } };
        let mut drained = drain(out, if clk.is_some() && phase < 5 { usize::MAX } else { j }, &mut got, &mut otags);
        if let Some(c) = clk {
            drained += drain(c, j, &mut got_clk, &mut ctags);
        }
        // phase changes
        if adversarial {
            phase_rounds += 1;
            let next = match phase {
                0 => after == before && v != 0,
                1 => phase_rounds >= 200,
                2 => (after == before && v != 0 && drained == 0) || phase_rounds >= 1500,
                3 => phase_rounds >= 600,
                4 => phase_rounds >= 200,
                _ => false,
            };
            if next { phase += 1; phase_rounds = 0; }
        }
        let progressed = fed > 0 || drained > 0 || after != before;
        if pos == data.len() && !progressed {
            idle += 1;
            if idle > 3 && (!adversarial || phase == 5) { break; }
            if adversarial && idle > 3 { phase = 5; idle = 0; }
        } else {
            idle = 0;
        }
    }
    if ONE_TO_ONE_TAGS.contains(&target) {
        // C12: each input tag exactly once, on the output sample with the same index (only outputs actually emitted count)
        otags.sort();
        let want: Vec<(u64, u64)> = (0..got.len()).filter(|i| tagged(*i, dense)).map(|i| (i as u64, i as u64)).collect();
        if otags != want {
            let first = otags.iter().zip(want.iter()).position(|(a, b)| a != b).unwrap_or(otags.len().min(want.len()));
            return Err(Fail { target: target.into(), prop: "C12", label: format!("C12.{target}.each-tag-once-at-the-same-index"),
                what: format!("{} schedule: {} tags delivered, {} expected; first difference at #{first}: got {:?}, want {:?} (output index, tagged input index)",
                    if adversarial { "drip-fed" } else { "roomy" }, otags.len(), want.len(), otags.get(first), want.get(first)), seed });
        }
    }
    if clk.is_some() {
        got.push(u64::MAX);
        got.extend(got_clk);
    }
    Ok(got)
}

fn signal(n: usize, seed: u64) -> Vec<Float> {
    let mut rng = Rng(seed + 1234567);
    let mut ph = 0.0f32;
    (0..n).map(|i| {
        if i % 97 == 0 { ph += ((rng.next() % 1000) as f32) / 300.0; }
        let noise = ((rng.next() % 2001) as f32 - 1000.0) / 9000.0;
        ((i as f32) * 0.21 + ph).sin() * 0.8 + noise
    }).collect()
}

fn compare(target: &str, seed: u64, a: &[u64], b: &[u64]) -> Result<(), Fail> {
    let n = a.len().min(b.len());
    for i in 0..n {
        if a[i] != b[i] {
            return Err(Fail { target: target.into(), prop: "C08+C10", label: format!("C08+C10.{target}.output-independent-of-chunking"),
                what: format!("output sample {i} differs between a roomy run ({:#x}) and a drip-fed run ({:#x}); {} vs {} samples in total", a[i], b[i], a.len(), b.len()), seed });
        }
    }
    if a.len() != b.len() {
        return Err(Fail { target: target.into(), prop: "C08+C10", label: format!("C08+C10.{target}.output-independent-of-chunking"),
            what: format!("{} output samples in a roomy run, {} in a drip-fed run of the same input", a.len(), b.len()), seed });
    }
    Ok(())
}

/// ZeroCrossing on the simplest signals there are: one (or two) sign changes at every position, several symbol lengths.
/// The block keeps integer sample counters next to float clocks; whatever the crossing position, no call may panic.
fn zc_single_crossings(seed: u64) -> Result<u64, Fail> {
    let mut works = 0u64;
    for sps in [2.5f32, 3.7, 10.0, 25.0] {
        for pos in 0..260usize {
            for second in [0usize, 7] {
                let mut sig: Vec<Float> = vec![-1.0; pos];
                sig.extend(std::iter::repeat(1.0).take(if second > 0 { second } else { 320 }));
                if second > 0 {
                    sig.extend(std::iter::repeat(-1.0).take(320));
                }
                let (w, r) = new_stream::<Float>();
                let (mut b, o) = ZeroCrossing::new(r, sps, 0.0);
                let mut wb = w.write_buf().unwrap();
                wb.fill_from_slice(&sig);
                wb.produce(sig.len(), &[]);
                for _ in 0..4 {
                    let ok = std::panic::catch_unwind(std::panic::AssertUnwindSafe(|| { let _ = b.work(); })).is_ok();
                    works += 1;
                    if !ok {
                        return Err(Fail { target: "zc".into(), prop: "C15", label: "C15.zc.work-does-not-panic".into(),
                            what: format!("samples per symbol {sps}: {pos} negative samples, then {} -- work() panicked", if second > 0 { format!("{second} positive, then negative ones") } else { "positive ones".into() }), seed });
                    }
                    let (rb, _) = o.read_buf().unwrap();
                    let n = rb.len();
                    rb.consume(n);
                }
            }
        }
    }
    Ok(works)
}

fn one(target: &str, seed: u64) -> Result<u64, Fail> {
    if target == "zc" && seed % 100 == 0 {
        zc_single_crossings(seed)?;
    }
    // float -> float blocks need > 1_024_000 samples to fill their output; complex output fills at 512_000
    // ... times the block's decimation ratio, so that the output really does fill up in the adversarial run
    let ratio = match target { "zc" | "zcclk" => 4, "symsync" | "ssclk" => 5, "firf" => 1 + (seed % 3) as usize, _ => 1 };
    let n_in = 1_100_000 * ratio;
    let sig = signal(n_in, seed);
    let mut outs: Vec<Vec<u64>> = vec![];
    for adversarial in [false, true] {
        let got = match target {
            "zc" => {
                let (w, r) = new_stream::<Float>();
                let (mut b, o) = ZeroCrossing::new(r, 3.7, 0.0);
                run(target, seed, &mut b, &w, &o, &sig, adversarial)?
            }
            "symsync" => {
                let (w, r) = new_stream::<Float>();
                let taps = [0.5f32, 0.5];
                let cf = rustradio::iir_filter::IirFilter::new(&taps);
                let (mut b, o) = SymbolSync::new(r, 4.3, 0.1, Box::new(rustradio::symbol_sync::TedZeroCrossing::new()), Box::new(cf));
                run(target, seed, &mut b, &w, &o, &sig, adversarial)?
            }
            "zcclk" => {
                let (w, r) = new_stream::<Float>();
                let (mut b, o) = ZeroCrossing::new(r, 3.7, 0.0);
                let c = b.out_clock();
                run2(target, seed, &mut b, &w, &o, Some(&c), &sig, adversarial)?
            }
            "ssclk" => {
                let (w, r) = new_stream::<Float>();
                let taps = [0.5f32, 0.5];
                let cf = rustradio::iir_filter::IirFilter::new(&taps);
                let (mut b, o) = SymbolSync::new(r, 4.3, 0.1, Box::new(rustradio::symbol_sync::TedZeroCrossing::new()), Box::new(cf));
                let c = b.out_clock().unwrap();
                run2(target, seed, &mut b, &w, &o, Some(&c), &sig, adversarial)?
            }
            "fftfilt" => {
                let (w, r) = new_stream::<Float>();
                let taps: Vec<Float> = (0..33).map(|i| 1.0 / (1.0 + i as f32)).collect();
                let (mut b, o) = FftFilterFloat::new(r, &taps);
                run(target, seed, &mut b, &w, &o, &sig, adversarial)?
            }
            "fftfiltc" => {
                let (w, r) = new_stream::<Complex>();
                let csig: Vec<Complex> = sig.iter().take(600_000).enumerate().map(|(i, x)| Complex::new(*x, sig[(i * 5 + 1) % sig.len()])).collect();
                let taps: Vec<Complex> = (0..21).map(|i| Complex::new(1.0 / (1.0 + i as f32), 0.01 * i as f32)).collect();
                let (mut b, o) = FftFilter::new(r, &taps);
                run(target, seed, &mut b, &w, &o, &csig, adversarial)?
            }
            "fftstream" => {
                let (w, r) = new_stream::<Complex>();
                let csig: Vec<Complex> = sig.iter().take(600_000).enumerate().map(|(i, x)| Complex::new(*x, sig[(i * 3 + 2) % sig.len()])).collect();
                let (mut b, o) = FftStream::new(r, [8usize, 64, 1000][(seed % 3) as usize]);
                run(target, seed, &mut b, &w, &o, &csig, adversarial)?
            }
            "firf" => {
                let (w, r) = new_stream::<Float>();
                let taps: Vec<Float> = (0..9).map(|i| 0.1 + i as f32 * 0.05).collect();
                let (mut b, o) = FirFilterBuilder::new(&taps).deci(1 + (seed % 3) as usize).build(r);
                run(target, seed, &mut b, &w, &o, &sig, adversarial)?
            }
            "hilbert" => {
                let (w, r) = new_stream::<Float>();
                let (mut b, o) = Hilbert::new(r, 17, &WindowType::Hamming);
                run(target, seed, &mut b, &w, &o, &sig, adversarial)?
            }
            "iir1" => {
                let (w, r) = new_stream::<Float>();
                let (mut b, o) = SinglePoleIirFilter::new(r, 0.2).unwrap();
                run(target, seed, &mut b, &w, &o, &sig, adversarial)?
            }
            "slicer" => {
                let (w, r) = new_stream::<Float>();
                let (mut b, o) = BinarySlicer::new(r);
                run(target, seed, &mut b, &w, &o, &sig, adversarial)?
            }
            "qdemod" => {
                let (w, r) = new_stream::<Complex>();
                let csig: Vec<Complex> = sig.iter().take(600_000).enumerate().map(|(i, x)| Complex::new(*x, sig[(i * 7 + 3) % sig.len()])).collect();
                let (mut b, o) = QuadratureDemod::new(r, 1.0);
                run(target, seed, &mut b, &w, &o, &csig, adversarial)?
            }
            _ => vec![],
        };
        outs.push(got);
    }
    compare(target, seed, &outs[0], &outs[1])?;
    Ok(outs[0].len() as u64)
}

#[test]
fn bx_dsp() {
    std::panic::set_hook(Box::new(|i| {
        if let Some(l) = i.location() {
            if l.file().starts_with("tests/") {
                eprintln!("harness panic: {i}");
            }
        }
    }));
    let targets = std::env::var("BX_TARGETS").unwrap_or_else(|_| "zc,zcclk,symsync,ssclk,fftfilt,fftfiltc,fftstream,firf,hilbert,iir1,slicer,qdemod".into());
    // one differential run is millions of samples: BX_N (sized for the small-state harnesses) is scaled down
    let n: u64 = std::env::var("BX_N").ok().and_then(|s| s.parse::<u64>().ok()).map(|n| (n / 50).max(2)).unwrap_or(2);
    let base: u64 = std::env::var("VERIF_SEED").ok().and_then(|s| s.parse().ok()).unwrap_or(1);
    // targets are independent: one thread each
    let results: Vec<(String, u64, u64, Result<(), Fail>)> = std::thread::scope(|sc| {
        let hs: Vec<_> = targets.split(',').map(|t| {
            sc.spawn(move || {
                let mut runs = 0u64;
                let mut samples = 0u64;
                let mut res: Result<(), Fail> = Ok(());
                for i in 0..n {
                    match one(t, base * 100 + i) {
                        Ok(s) => { samples += s; runs += 1; }
                        Err(f) => { res = Err(f); runs += 1; break; }
                    }
                }
                (t.to_string(), runs, samples, res)
            })
        }).collect();
        hs.into_iter().map(|h| h.join().unwrap()).collect()
    });
    let mut failed = false;
    for (t, runs, samples, res) in results {
        println!("BXSTAT {{\"target\":\"{}\",\"differential_runs\":{},\"output_samples_compared\":{}}}", t, runs, samples);
        if let Err(f) = res {
            f.print();
            failed = true;
        }
    }
    if failed {
        panic!("bounded dsp chunk-independence check failed");
    }
}
