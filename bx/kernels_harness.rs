// bx kernels harness: BOUNDED check of the per-sample kernels under contract in unit `kernels` (never counted as proof),
// driven through their real blocks and streams: NrziDecode, CorrelateAccessCode, CorrelateAccessCodeTag, BurstTagger, and the
// G3RUH Descrambler through both of its constructors.
// It is the stand-in / second opinion of that unit: output samples and tags of a drip-fed run are compared with a
// per-sample reference written from the documentation (the same rules the Verus contracts state).
use rustradio::block::{Block, BlockRet};
use rustradio::blocks::*;
use rustradio::stream::{new_stream, ReadStream, Tag, TagValue, WriteStream};
use rustradio::Float;

struct Rng(u64);
impl Rng {
    fn next(&mut self) -> u64 {
        self.0 ^= self.0 << 13;
        self.0 ^= self.0 >> 7;
        self.0 ^= self.0 << 17;
        self.0
    }
    fn below(&mut self, n: usize) -> usize {
        ((self.next() >> 11) % (n as u64).max(1)) as usize
    }
}

type TagRec = (usize, String, String);

struct Fail {
    prop: &'static str,
    label: String,
    what: String,
    seed: u64,
}

fn feed<T: Copy>(w: &WriteStream<T>, data: &[T], pos: &mut usize, k: usize, tags: &[TagRec]) {
    let mut wb = w.write_buf().unwrap();
    let n = k.min(wb.len()).min(data.len() - *pos);
    wb.fill_from_slice(&data[*pos..*pos + n]);
    let ts: Vec<Tag> = tags.iter().filter(|t| t.0 >= *pos && t.0 < *pos + n).map(|t| Tag::new(t.0 - *pos, t.1.clone(), TagValue::String(t.2.clone()))).collect();
    wb.produce(n, &ts);
    *pos += n;
}

fn drain<T: Copy>(r: &ReadStream<T>, got: &mut Vec<T>, got_tags: &mut Vec<TagRec>) {
    let (rb, tags) = r.read_buf().unwrap();
    for t in &tags {
        got_tags.push((got.len() + t.pos(), t.key().to_string(), format!("{:?}", t.val())));
    }
    got.extend_from_slice(rb.slice());
    let n = rb.len();
    rb.consume(n);
}

fn work(b: &mut dyn Block, seed: u64, what: &str) -> Result<(), Fail> {
    match std::panic::catch_unwind(std::panic::AssertUnwindSafe(|| matches!(b.work(), Ok(BlockRet::Again) | Ok(BlockRet::WaitForStream(_, _))))) {
        Ok(true) => Ok(()),
        Ok(false) => Err(Fail { prop: "C10", label: format!("C10.{what}.work-returns-a-verdict"), what: "work() returned an error or EOF".into(), seed }),
        Err(_) => Err(Fail { prop: "C15", label: format!("C15.{what}.work-does-not-panic"), what: "work() panicked".into(), seed }),
    }
}

fn in_tags(rng: &mut Rng, n: usize) -> Vec<TagRec> {
    let mut v = vec![];
    for i in 0..n {
        if rng.below(7) == 0 {
            v.push((i, "in".to_string(), format!("v{i}")));
            if rng.below(3) == 0 {
                v.push((i, "in2".to_string(), format!("w{i}")));
            }
        }
    }
    v
}

fn expect_in(t: &TagRec) -> TagRec {
    (t.0, t.1.clone(), format!("{:?}", TagValue::String(t.2.clone())))
}

fn run_nrzi(seed: u64) -> Result<(), Fail> {
    let mut rng = Rng(seed * 7927 + 1);
    let n = 400 + rng.below(400);
    let data: Vec<u8> = (0..n).map(|_| rng.below(2) as u8).collect();
    let (w, r) = new_stream::<u8>();
    let (mut b, out) = NrziDecode::new(r);
    let (mut got, mut gt, mut pos) = (vec![], vec![], 0);
    while pos < n {
        feed(&w, &data, &mut pos, 1 + rng.below(40), &[]);
        work(&mut b, seed, "nrzi")?;
        drain(&out, &mut got, &mut gt);
    }
    let mut last = 0u8;
    for (i, a) in data.iter().enumerate() {
        let want = 1 ^ a ^ last;
        last = *a;
        if got.get(i) != Some(&want) {
            return Err(Fail { prop: "C10", label: "C10.nrzi.xor-with-previous".into(), what: format!("output bit {i} is {:?}, 1 ^ {a} ^ previous gives {want}", got.get(i)), seed });
        }
    }
    Ok(())
}

/// G3RUH descrambler (the documented polynomial 1 + x^12 + x^17): out[t] = in[t] ^ in[t-12] ^ in[t-17], history zero.
fn run_g3ruh(seed: u64) -> Result<(), Fail> {
    let mut rng = Rng(seed * 9973 + 7);
    let n = 300 + rng.below(400);
    let data: Vec<u8> = (0..n).map(|_| rng.below(2) as u8).collect();
    let mut outs: Vec<Vec<u8>> = vec![];
    for ctor in 0..2 {
        let (w, r) = new_stream::<u8>();
        let (mut b, out) = if ctor == 0 { Descrambler::new_g3ruh(r) } else { Descrambler::new(r, 0x21, 0, 16) };
        let (mut got, mut gt, mut pos) = (vec![], vec![], 0);
        while pos < n {
            feed(&w, &data, &mut pos, 1 + rng.below(60), &[]);
            work(&mut b, seed, "descrambler")?;
            drain(&out, &mut got, &mut gt);
        }
        outs.push(got);
    }
    for t in 0..n {
        let want = data[t] ^ (if t >= 12 { data[t - 12] } else { 0 }) ^ (if t >= 17 { data[t - 17] } else { 0 });
        for (k, name) in [(0usize, "new_g3ruh()"), (1, "new(0x21, 0, 16)")] {
            if outs[k].get(t) != Some(&want) {
                return Err(Fail { prop: "C10", label: "C10.descrambler.g3ruh-is-in-xor-in12-xor-in17".into(),
                    what: format!("Descrambler::{name}: output bit {t} is {:?}, in[t] ^ in[t-12] ^ in[t-17] gives {want}", outs[k].get(t)), seed });
            }
        }
    }
    Ok(())
}

fn correlate_ref(data: &[u8], code: &[u8], allowed: usize) -> Vec<(u8, usize)> {
    // the newest code.len() bits (the window starts as zeros); differences over the common positions
    let mut slide = vec![0u8; code.len()];
    let mut out = vec![];
    for a in data {
        slide.push(*a);
        if slide.len() > code.len() {
            slide.remove(0);
        }
        let d = slide.iter().zip(code.iter()).filter(|(x, y)| x != y).count();
        out.push((if d <= allowed { 1 } else { 0 }, d));
    }
    out
}

fn run_correlate(seed: u64) -> Result<(), Fail> {
    let mut rng = Rng(seed * 6151 + 3);
    let clen = 1 + rng.below(12);
    let code: Vec<u8> = (0..clen).map(|_| rng.below(2) as u8).collect();
    let allowed = rng.below(3);
    let n = 300 + rng.below(300);
    let mut data: Vec<u8> = (0..n).map(|_| rng.below(2) as u8).collect();
    // plant the code (and near misses) a few times
    for _ in 0..6 {
        let at = rng.below(n - clen);
        data[at..at + clen].copy_from_slice(&code);
        if rng.below(2) == 0 {
            let k = at + rng.below(clen);
            data[k] ^= 1;
        }
    }
    let want = correlate_ref(&data, &code, allowed);
    // plain
    {
        let (w, r) = new_stream::<u8>();
        let (mut b, out) = CorrelateAccessCode::new(r, code.clone(), allowed);
        let (mut got, mut gt, mut pos) = (vec![], vec![], 0);
        while pos < n {
            feed(&w, &data, &mut pos, 1 + rng.below(50), &[]);
            work(&mut b, seed, "correlate")?;
            drain(&out, &mut got, &mut gt);
        }
        for i in 0..n {
            if got.get(i) != Some(&want[i].0) {
                return Err(Fail { prop: "C10", label: "C10.correlate.one-iff-within-allowed-differences".into(),
                    what: format!("code {code:?}, {allowed} differences allowed: output {i} is {:?}, the window differs from the code in {} positions", got.get(i), want[i].1), seed });
            }
        }
    }
    // tagging variant
    {
        let tags = in_tags(&mut rng, n);
        let (w, r) = new_stream::<u8>();
        let (mut b, out) = CorrelateAccessCodeTag::new(r, code.clone(), "hit", allowed);
        let (mut got, mut gt, mut pos) = (vec![], vec![], 0);
        while pos < n {
            feed(&w, &data, &mut pos, 1 + rng.below(50), &tags);
            work(&mut b, seed, "correlate_tag")?;
            drain(&out, &mut got, &mut gt);
        }
        if got != data {
            return Err(Fail { prop: "C10", label: "C10.correlate_tag.sample-passes-through".into(), what: "output samples differ from the input".into(), seed });
        }
        let mut wt: Vec<TagRec> = vec![];
        for i in 0..n {
            wt.extend(tags.iter().filter(|t| t.0 == i).map(expect_in));
            if want[i].0 == 1 {
                wt.push((i, "hit".into(), format!("{:?}", TagValue::U64(want[i].1 as u64))));
            }
        }
        if gt != wt {
            let k = gt.iter().zip(wt.iter()).position(|(a, b)| a != b).unwrap_or(gt.len().min(wt.len()));
            return Err(Fail { prop: "C12", label: "C12.correlate_tag.tag-added-exactly-on-a-match".into(),
                what: format!("code {code:?}, {allowed} allowed: {} tags out, {} specified; first difference: {:?} vs {:?}", gt.len(), wt.len(), gt.get(k), wt.get(k)), seed });
        }
    }
    Ok(())
}

fn run_burst(seed: u64) -> Result<(), Fail> {
    let mut rng = Rng(seed * 4057 + 5);
    let n = 300 + rng.below(300);
    let data: Vec<u32> = (0..n as u32).map(|i| i.wrapping_mul(2654435761)).collect();
    let threshold: Float = 0.5;
    // a trigger that crosses the threshold now and then, sometimes on consecutive samples, sometimes sitting exactly on it
    let mut level = 0.0 as Float;
    let trig: Vec<Float> = (0..n).map(|_| { match rng.below(9) { 0 => level = 1.0, 1 => level = 0.0, 2 => level = 0.5, _ => {} } level }).collect();
    let tags = in_tags(&mut rng, n);
    let (w, r) = new_stream::<u32>();
    let (wt, rt) = new_stream::<Float>();
    let (mut b, out) = BurstTagger::new(r, rt, threshold, "burst");
    let (mut got, mut gt, mut pos, mut tpos) = (vec![], vec![], 0, 0);
    while pos < n || tpos < n {
        // the two inputs advance unevenly
        feed(&w, &data, &mut pos, rng.below(40), &tags);
        feed(&wt, &trig, &mut tpos, rng.below(40), &[]);
        work(&mut b, seed, "burst_tagger")?;
        drain(&out, &mut got, &mut gt);
    }
    for _ in 0..3 {
        work(&mut b, seed, "burst_tagger")?;
        drain(&out, &mut got, &mut gt);
    }
    if got != data {
        return Err(Fail { prop: "C10", label: "C10.burst_tagger.sample-passes-through".into(), what: format!("{} samples out, {} in, or values differ", got.len(), data.len()), seed });
    }
    let mut want: Vec<TagRec> = vec![];
    let mut last = false;
    for i in 0..n {
        want.extend(tags.iter().filter(|t| t.0 == i).map(expect_in));
        let cur = trig[i] > threshold;
        if cur != last {
            want.push((i, "burst".into(), format!("{:?}", TagValue::Bool(cur))));
        }
        last = cur;
    }
    if gt != want {
        let k = gt.iter().zip(want.iter()).position(|(a, b)| a != b).unwrap_or(gt.len().min(want.len()));
        return Err(Fail { prop: "C12", label: "C12.burst_tagger.incoming-tags-kept-and-burst-tag-exactly-on-an-edge".into(),
            what: format!("{} tags out, {} specified; first difference: {:?} vs {:?}", gt.len(), want.len(), gt.get(k), want.get(k)), seed });
    }
    Ok(())
}

#[test]
fn bx_kernels() {
    let n: u64 = std::env::var("BX_N").ok().and_then(|s| s.parse().ok()).unwrap_or(40);
    let base: u64 = std::env::var("VERIF_SEED").ok().and_then(|s| s.parse().ok()).unwrap_or(1);
    let mut failed = false;
    let mut runs = 0;
    for i in 0..n {
        let seed = base * 1000 + i;
        for r in [run_nrzi(seed), run_correlate(seed), run_burst(seed), run_g3ruh(seed)] {
            runs += 1;
            if let Err(f) = r {
                println!("BXFAIL {{\"target\":\"kernels\",\"property\":\"{}\",\"label\":\"{}\",\"what\":\"{}\",\"seed\":{}}}", f.prop, f.label, f.what.replace('"', "'").replace('\\', ""), f.seed);
                failed = true;
            }
        }
        if failed {
            break;
        }
    }
    println!("BXSTAT {{\"target\":\"kernels\",\"schedules\":{},\"stream_capacity\":\"default\"}}", runs);
    if failed {
        panic!("bounded kernel check failed");
    }
}
