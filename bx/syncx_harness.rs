// bx syncx harness: BOUNDED drip-feed check of the derive users of hooks/syncx_blocks.rs (never counted as proof).
//
// The Verus unit `syncx` proves the generated code of these blocks from its macro expansion; this harness is the
// stand-in when the expansion no longer has the shape rule X-SYNCLOOP knows (the unit is then undecided), and the
// source of concrete failing schedules for the replay file.  vx/bx.py prepends hooks/syncx_blocks.rs to this file, so the
// blocks' private fields are visible (used to identify the stream a WaitForStream verdict names).
//
// Per block and schedule: feed uneven amounts to every input (u8 streams hold 4 096 000 samples, u32 streams 1 024 000,
// so "output full" and "one input shorter" are routine), call work(), drain some output, and check after EVERY call
//   Again           => every input lost and every output gained the same k >= 1 samples, k == min(available, space)
//   WaitForStream   => nothing moved, need == 1, and the named stream is an input that is empty or an output that is full
//   eof()           => false unless every input's writer is gone and every input is drained
// and at the end: every output is the block's sample function of the inputs, position by position; the tags of the
// tag-source input arrive exactly once on the same sample index of every output; new() returned the read ends in
// declaration order (the outputs compute different functions, so a swap shows as wrong content).
use rustradio::block::{Block, BlockEOF, BlockRet};
use rustradio::stream::{new_stream, StreamWait, TagValue};
use std::cell::RefCell;
use std::rc::Rc;

struct Rng(u64);
impl Rng {
    fn next(&mut self) -> u64 {
        self.0 ^= self.0 << 13;
        self.0 ^= self.0 >> 7;
        self.0 ^= self.0 << 17;
        self.0
    }
    fn below(&mut self, n: usize) -> usize {
        (self.next() % (n as u64).max(1)) as usize
    }
    fn pick(&mut self, xs: &[usize]) -> usize {
        xs[self.below(xs.len())]
    }
}

type TagRec = (usize, String, String);

trait Samp: Copy + 'static {
    fn from64(v: u64) -> Self;
    fn to64(self) -> u64;
}
impl Samp for u32 {
    fn from64(v: u64) -> Self {
        v as u32
    }
    fn to64(self) -> u64 {
        self as u64
    }
}
impl Samp for u8 {
    fn from64(v: u64) -> Self {
        v as u8
    }
    fn to64(self) -> u64 {
        self as u64
    }
}

trait InPort {
    /// append up to k samples (values from the port's counter); returns how many fitted
    fn feed(&mut self, k: usize, tag_every: u64) -> usize;
    fn buffered(&self) -> usize;
    fn fed(&self) -> &Vec<u64>;
    fn fed_tags(&self) -> &Vec<TagRec>;
    fn close(&mut self);
    fn closed(&self) -> bool;
    /// the writer is gone, so the fill level can no longer be read: account for k samples the block took
    fn note_taken(&mut self, k: usize);
}
struct In<T: Samp> {
    w: Option<WriteStream<T>>,
    cap: usize,
    next: u64,
    fed: Vec<u64>,
    tags: Vec<TagRec>,
    last_buffered: usize,
}
impl<T: Samp> InPort for In<T> {
    fn feed(&mut self, k: usize, tag_every: u64) -> usize {
        let Some(w) = &self.w else { return 0 };
        let mut wb = w.write_buf().unwrap();
        let n = std::cmp::min(k, wb.len());
        let mut tags = vec![];
        for i in 0..n {
            let v = self.next;
            self.next = self.next.wrapping_mul(6364136223846793005).wrapping_add(1442695040888963407);
            let s = T::from64(v >> 20);
            wb.slice()[i] = s;
            let idx = self.fed.len();
            if tag_every > 0 && (idx as u64) % tag_every == 0 {
                tags.push(Tag::new(i, "t", TagValue::U64(idx as u64)));
                self.tags.push((idx, "t".into(), format!("{:?}", TagValue::U64(idx as u64))));
                if (idx as u64) % (3 * tag_every) == 0 {
                    tags.push(Tag::new(i, "u", TagValue::Bool(true)));
                    self.tags.push((idx, "u".into(), format!("{:?}", TagValue::Bool(true))));
                }
            }
            self.fed.push(s.to64());
        }
        wb.produce(n, &tags);
        n
    }
    fn buffered(&self) -> usize {
        match &self.w {
            Some(w) => self.cap - w.free(),
            None => self.last_buffered,
        }
    }
    fn fed(&self) -> &Vec<u64> {
        &self.fed
    }
    fn fed_tags(&self) -> &Vec<TagRec> {
        &self.tags
    }
    fn close(&mut self) {
        self.last_buffered = self.buffered();
        self.w = None;
    }
    fn closed(&self) -> bool {
        self.w.is_none()
    }
    fn note_taken(&mut self, k: usize) {
        self.last_buffered = self.last_buffered.saturating_sub(k);
    }
}
fn inport<T: Samp>() -> (In<T>, ReadStream<T>) {
    let (w, r) = new_stream::<T>();
    let cap = w.free();
    (In { w: Some(w), cap, next: 0x9e3779b97f4a7c15, fed: vec![], tags: vec![], last_buffered: 0 }, r)
}

trait OutPort {
    fn drain(&mut self, max: usize) -> usize;
    fn readable(&self) -> usize;
    fn cap(&self) -> usize;
    fn got(&self) -> &Vec<u64>;
    fn got_tags(&self) -> &Vec<TagRec>;
}
struct Out<T: Samp> {
    r: ReadStream<T>,
    cap: usize,
    got: Vec<u64>,
    tags: Vec<TagRec>,
}
impl<T: Samp> OutPort for Out<T> {
    fn drain(&mut self, max: usize) -> usize {
        let (rb, tags) = self.r.read_buf().unwrap();
        let n = std::cmp::min(max, rb.len());
        for t in &tags {
            if t.pos() < n {
                self.tags.push((self.got.len() + t.pos(), t.key().to_string(), format!("{:?}", t.val())));
            }
        }
        for i in 0..n {
            self.got.push(rb.slice()[i].to64());
        }
        rb.consume(n);
        n
    }
    fn readable(&self) -> usize {
        self.r.read_buf().unwrap().0.len()
    }
    fn cap(&self) -> usize {
        self.cap
    }
    fn got(&self) -> &Vec<u64> {
        &self.got
    }
    fn got_tags(&self) -> &Vec<TagRec> {
        &self.tags
    }
}
fn outport<T: Samp>(r: ReadStream<T>) -> Out<T> {
    let cap = 4_096_000 / std::mem::size_of::<T>();
    Out { r, cap, got: vec![], tags: vec![] }
}

enum V {
    Again,
    Wait(usize, usize),
    Other(&'static str),
}

struct Drv {
    name: &'static str,
    ins: Vec<Box<dyn InPort>>,
    outs: Vec<Box<dyn OutPort>>,
    work: Box<dyn FnMut() -> V>,
    eof: Box<dyn FnMut() -> bool>,
    /// sample function: inputs at step k (and k itself, for the stateful block) -> one value per output
    f: fn(&[u64], u64) -> Vec<u64>,
    tagsrc: usize,
}

macro_rules! glue {
    ($blk:expr, [$($i:ident),*], [$($o:ident),*]) => {{
        let cell = Rc::new(RefCell::new($blk));
        let c1 = cell.clone();
        let c2 = cell.clone();
        let work: Box<dyn FnMut() -> V> = Box::new(move || {
            let mut b = c1.borrow_mut();
            let ptrs: Vec<*const ()> = vec![$(&b.$i as *const _ as *const ()),*, $(&b.$o as *const _ as *const ()),*];
            match b.work() {
                Ok(BlockRet::Again) => V::Again,
                Ok(BlockRet::WaitForStream(w, need)) => {
                    let p = w as *const dyn StreamWait as *const ();
                    V::Wait(ptrs.iter().position(|q| *q == p).unwrap_or(99), need)
                }
                Ok(BlockRet::EOF) => V::Other("EOF"),
                Ok(_) => V::Other("another verdict"),
                Err(_) => V::Other("an error"),
            }
        });
        let eof: Box<dyn FnMut() -> bool> = Box::new(move || c2.borrow_mut().eof());
        (work, eof)
    }};
}

fn build(which: usize) -> Drv {
    match which {
        0 => {
            let (a, ra) = inport::<u32>();
            let (b, x) = V11::new(ra, 7u32, 3);
            let (work, eof) = glue!(b, [a], [x]);
            Drv { name: "v11", ins: vec![Box::new(a)], outs: vec![Box::new(outport(x))], work, eof, tagsrc: 0,
                f: |i, k| vec![(i[0] as u32 ^ ((k + 1) as u32)) as u64] }
        }
        1 => {
            let (a, ra) = inport::<u8>();
            let (b, x, y) = V12::new(ra);
            let (work, eof) = glue!(b, [a], [x, y]);
            Drv { name: "v12", ins: vec![Box::new(a)], outs: vec![Box::new(outport(x)), Box::new(outport(y))], work, eof, tagsrc: 0,
                f: |i, _| vec![(!(i[0] as u8)) as u64, i[0]] }
        }
        2 => {
            let (a, ra) = inport::<u32>();
            let (b, x, y, z) = V13::new(ra);
            let (work, eof) = glue!(b, [a], [x, y, z]);
            Drv { name: "v13", ins: vec![Box::new(a)], outs: vec![Box::new(outport(x)), Box::new(outport(y)), Box::new(outport(z))], work, eof, tagsrc: 0,
                f: |i, _| vec![i[0], (!(i[0] as u32)) as u64, i[0] & 0xff] }
        }
        3 => {
            let (a, ra) = inport::<u32>();
            let (b_, rb) = inport::<u8>();
            let (b, x) = V21::new(ra, rb);
            let (work, eof) = glue!(b, [a, b], [x]);
            Drv { name: "v21", ins: vec![Box::new(a), Box::new(b_)], outs: vec![Box::new(outport(x))], work, eof, tagsrc: 0,
                f: |i, _| vec![i[0] ^ i[1]] }
        }
        4 => {
            let (a, ra) = inport::<u32>();
            let (b_, rb) = inport::<u32>();
            let (b, x, y) = V22::new(ra, rb);
            let (work, eof) = glue!(b, [a, b], [x, y]);
            Drv { name: "v22", ins: vec![Box::new(a), Box::new(b_)], outs: vec![Box::new(outport(x)), Box::new(outport(y))], work, eof, tagsrc: 0,
                f: |i, _| vec![i[1], i[0]] }
        }
        5 => {
            let (a, ra) = inport::<u8>();
            let (b_, rb) = inport::<u32>();
            let (b, x, y, z) = V23::new(ra, rb);
            let (work, eof) = glue!(b, [a, b], [x, y, z]);
            Drv { name: "v23", ins: vec![Box::new(a), Box::new(b_)], outs: vec![Box::new(outport(x)), Box::new(outport(y)), Box::new(outport(z))], work, eof, tagsrc: 0,
                f: |i, _| vec![i[1], i[0], i[1] ^ i[0]] }
        }
        6 => {
            let (a, ra) = inport::<u32>();
            let (b_, rb) = inport::<u32>();
            let (c, rc) = inport::<u32>();
            let (b, x) = V31::new(ra, rb, rc);
            let (work, eof) = glue!(b, [a, b, c], [x]);
            Drv { name: "v31", ins: vec![Box::new(a), Box::new(b_), Box::new(c)], outs: vec![Box::new(outport(x))], work, eof, tagsrc: 0,
                f: |i, _| vec![(i[0] as u32 ^ !(i[1] as u32) ^ (i[2] as u32 & 0xffff)) as u64] }
        }
        7 => {
            let (a, ra) = inport::<u32>();
            let (b_, rb) = inport::<u8>();
            let (c, rc) = inport::<u32>();
            let (b, x, y) = V32::new(ra, rb, rc);
            let (work, eof) = glue!(b, [a, b, c], [x, y]);
            Drv { name: "v32", ins: vec![Box::new(a), Box::new(b_), Box::new(c)], outs: vec![Box::new(outport(x)), Box::new(outport(y))], work, eof, tagsrc: 0,
                f: |i, _| vec![i[0] ^ i[2], (!(i[1] as u8)) as u64] }
        }
        8 => {
            let (a, ra) = inport::<u32>();
            let (b_, rb) = inport::<u32>();
            let (c, rc) = inport::<u32>();
            let (b, x, y, z) = V33::new(ra, rb, rc);
            let (work, eof) = glue!(b, [a, b, c], [x, y, z]);
            Drv { name: "v33", ins: vec![Box::new(a), Box::new(b_), Box::new(c)], outs: vec![Box::new(outport(x)), Box::new(outport(y)), Box::new(outport(z))], work, eof, tagsrc: 0,
                f: |i, _| vec![i[2], i[0], i[1]] }
        }
        9 => {
            let (a, ra) = inport::<u32>();
            let (b, x) = V11T::new(ra);
            let (work, eof) = glue!(b, [a], [x]);
            Drv { name: "v11t", ins: vec![Box::new(a)], outs: vec![Box::new(outport(x))], work, eof, tagsrc: 0,
                f: |i, _| vec![(!(i[0] as u32)) as u64] }
        }
        _ => {
            let (a, ra) = inport::<u32>();
            let (b_, rb) = inport::<u8>();
            let (b, x, y) = V22T::new(ra, rb);
            let (work, eof) = glue!(b, [a, b], [x, y]);
            Drv { name: "v22t", ins: vec![Box::new(a), Box::new(b_)], outs: vec![Box::new(outport(x)), Box::new(outport(y))], work, eof, tagsrc: 1,
                f: |i, _| vec![i[1], i[0]] }
        }
    }
}

struct Fail {
    label: String,
    what: String,
    seed: u64,
    params: String,
}

fn run_one(which: usize, seed: u64) -> Result<(u64, u64, u64), Fail> {
    let mut rng = Rng(seed.wrapping_mul(0x2545F4914F6CDD1D) ^ 0xabcdef);
    let mut d = build(which);
    let nm = d.name;
    // every feeding style with several tag densities (the generator's low bits are too regular to pick these)
    let idx = (seed % 1000) as usize;
    let style = idx % 5;
    // tags are filtered per sample by the generated code: keep them sparse when the windows are large
    let tag_every = [0u64, 1, 2, 5, 100_000][(idx * 2 + idx / 5) % 5];
    let params = format!("block={nm} style={style} tag_every={tag_every}");
    let fail = |label: &str, what: String| Fail { label: format!("C19.{nm}.{label}"), what, seed, params: params.clone() };
    let mut works = 0u64;
    let (mut full_calls, mut uneven_calls) = (0u64, 0u64);
    let nin = d.ins.len();
    let nout = d.outs.len();
    let mut consumed = vec![0usize; nin];
    let steps = 40;
    for s in 0..steps {
        let feeding = s < 28;
        if feeding {
            for i in 0..nin {
                let k = match style {
                    // tiny uneven drips (dense tags allowed)
                    0 => rng.pick(&[0, 0, 1, 1, 2, 3, 7]),
                    // medium
                    1 => rng.pick(&[0, 1, 50, 300, 1000]),
                    // one input far ahead of the others
                    2 => if i == 0 { rng.pick(&[1000, 5000]) } else { rng.pick(&[0, 1, 2, 900]) },
                    // fill the outputs: large amounts, outputs rarely drained
                    3 => rng.pick(&[100_000, 400_000, 1_100_000]),
                    _ => rng.pick(&[0, 1, 2, 1000, 200_000]),
                };
                // (a generated loop that mishandles tags can copy every tag for every sample: dense tags only on small windows)
                let te = if k > 300 && tag_every > 0 && tag_every < 100_000 { 100_000 } else { tag_every };
                d.ins[i].feed(k, te);
            }
        }
        if s == 30 {
            // the writers go away one by one; a drained input whose writer is gone has "ended"
            let first = rng.below(nin);
            d.ins[first].close();
        }
        if s == 33 {
            for i in 0..nin {
                d.ins[i].close();
            }
        }
        for _ in 0..(1 + rng.below(3)) {
            let avail: Vec<usize> = (0..nin).map(|i| d.ins[i].buffered()).collect();
            let space: Vec<usize> = (0..nout).map(|j| d.outs[j].cap() - d.outs[j].readable()).collect();
            let had: Vec<usize> = (0..nout).map(|j| d.outs[j].readable()).collect();
            let v = match std::panic::catch_unwind(std::panic::AssertUnwindSafe(|| (d.work)())) {
                Ok(v) => v,
                Err(_) => return Err(fail("generated-assertions-cannot-fire", format!("work() panicked with available {avail:?} space {space:?}"))),
            };
            works += 1;
            let gave: Vec<usize> = (0..nout).map(|j| d.outs[j].readable() - had[j]).collect();
            for i in 0..nin {
                if d.ins[i].closed() {
                    // not observable any more: assume it moved in step with the first output (content is compared at the end)
                    d.ins[i].note_taken(gave[0]);
                }
            }
            let took: Vec<usize> = (0..nin).map(|i| avail[i] - d.ins[i].buffered()).collect();
            let want = avail.iter().chain(space.iter()).copied().min().unwrap();
            if avail.iter().all(|a| *a > 0) && space.iter().any(|s| *s == 0) {
                full_calls += 1;
            }
            if want > 0 && avail.iter().chain(space.iter()).any(|a| *a != want) {
                uneven_calls += 1;
            }
            match v {
                V::Again => {
                    let k = took[0];
                    if k == 0 || took.iter().any(|t| *t != k) || gave.iter().any(|g| *g != k) {
                        return Err(fail("one-sample-from-every-input-and-to-every-output-per-step",
                            format!("a call took {took:?} samples from the inputs and committed {gave:?} to the outputs (available {avail:?}, space {space:?})")));
                    }
                    if k != want {
                        return Err(fail("exactly-min-of-shortest-input-and-smallest-space-steps",
                            format!("a call made {k} steps; shortest input / smallest space allowed exactly {want} (available {avail:?}, space {space:?})")));
                    }
                }
                V::Wait(idx, need) => {
                    if took.iter().any(|t| *t != 0) || gave.iter().any(|g| *g != 0) {
                        return Err(fail("nothing-moves-unless-a-step-was-made", format!("WaitForStream after taking {took:?} and committing {gave:?}")));
                    }
                    let ok = need == 1 && ((idx < nin && avail[idx] == 0) || (idx >= nin && idx < nin + nout && space[idx - nin] == 0));
                    if !ok {
                        return Err(fail("waits-on-a-stream-that-is-empty-or-full",
                            format!("WaitForStream(stream #{idx} of inputs-then-outputs, {need}) with available {avail:?} and space {space:?}")));
                    }
                }
                V::Other(w) => return Err(fail("waits-on-a-stream-that-is-empty-or-full", format!("work() returned {w} (available {avail:?}, space {space:?})"))),
            }
            for i in 0..nin {
                consumed[i] += took[i];
            }
            // end-of-input verdict
            let e = (d.eof)();
            let all_ended = (0..nin).all(|i| d.ins[i].closed() && d.ins[i].buffered() == 0);
            if e && !all_ended {
                let st: Vec<(bool, usize)> = (0..nin).map(|i| (d.ins[i].closed(), d.ins[i].buffered())).collect();
                return Err(fail("end-of-input-only-when-every-input-has-ended-and-is-drained", format!("eof() is true with inputs (writer gone, still buffered) = {st:?}")));
            }
        }
        // drain
        for j in 0..nout {
            let k = match style {
                3 => if s % 9 == 8 { rng.pick(&[1, 1000, 2_000_000]) } else { 0 },
                _ => rng.pick(&[0, 1, 3, 1000, 5_000_000]),
            };
            if d.outs[j].drain(k) > 0 {
                // tags of the drained part are final: compare at once (fail fast, before a faulty loop piles tags up)
                let upto = d.outs[j].got().len();
                let want = d.ins[d.tagsrc].fed_tags().iter().filter(|t| t.0 < upto).count();
                let g = d.outs[j].got_tags().len();
                if g != want {
                    return Err(fail(&format!("tags-travel-with-their-samples-to-output-{}", ["x", "y", "z"][j]),
                        format!("{g} tags on the first {upto} samples of output {j}, the tag-source input carried {want} there")));
                }
            }
        }
    }
    for j in 0..nout {
        d.outs[j].drain(usize::MAX);
    }
    // content: output j, sample k == f(inputs at k)[j]
    let total = consumed[0];
    for j in 0..nout {
        let got = d.outs[j].got();
        if got.len() != total {
            return Err(fail("one-sample-from-every-input-and-to-every-output-per-step", format!("output {j} holds {} samples after {total} steps", got.len())));
        }
        for k in 0..total {
            let inputs: Vec<u64> = (0..nin).map(|i| d.ins[i].fed()[k]).collect();
            let w = (d.f)(&inputs, k as u64)[j];
            if got[k] != w {
                return Err(fail(&format!("every-sample-of-output-{}-is-process_sync-of-the-inputs-at-the-same-step", ["x", "y", "z"][j]),
                    format!("output {j} sample {k} is {}, process_sync of the inputs {inputs:?} at that step gives {w}", got[k])));
            }
        }
        let mut want: Vec<&TagRec> = d.ins[d.tagsrc].fed_tags().iter().filter(|t| t.0 < total).collect();
        let mut g: Vec<&TagRec> = d.outs[j].got_tags().iter().collect();
        want.sort();
        g.sort();
        if want != g {
            let extra: Vec<_> = g.iter().filter(|t| !want.contains(t)).take(3).collect();
            let missing: Vec<_> = want.iter().filter(|t| !g.contains(t)).take(3).collect();
            return Err(fail(&format!("tags-travel-with-their-samples-to-output-{}", ["x", "y", "z"][j]),
                format!("{} tags on output {j}, {} expected; unexpected {extra:?} missing {missing:?}", g.len(), want.len())));
        }
    }
    Ok((works, full_calls, uneven_calls))
}

#[test]
fn bx_syncx() {
    // a faulty generated loop may allocate without bound (e.g. copy every tag for every sample): die instead of
    // taking the machine down
    unsafe {
        let lim = libc::rlimit { rlim_cur: 24 << 30, rlim_max: 24 << 30 };
        libc::setrlimit(libc::RLIMIT_AS, &lim);
    }
    let n: u64 = std::env::var("BX_N").ok().and_then(|s| s.parse().ok()).unwrap_or(10);
    let seed0: u64 = std::env::var("VERIF_SEED").ok().and_then(|s| s.parse().ok()).unwrap_or(1);
    let mut failed = false;
    let mut works = (0u64, 0u64, 0u64);
    let mut runs = 0u64;
    let t0 = std::time::Instant::now();
    let results: Vec<_> = std::thread::scope(|sc| {
        let hs: Vec<_> = (0..11usize).map(|which| sc.spawn(move || {
            let mut w = (0u64, 0u64, 0u64);
            let mut r = 0u64;
            for s in 0..n {
                match run_one(which, seed0 * 1000 + s) {
                    Ok(k) => { w = (w.0 + k.0, w.1 + k.1, w.2 + k.2); r += 1; }
                    Err(f) => return (w, r, Some(f)),
                }
            }
            (w, r, None)
        })).collect();
        hs.into_iter().map(|h| h.join().unwrap()).collect()
    });
    for (w, r, f) in results {
        works = (works.0 + w.0, works.1 + w.1, works.2 + w.2);
        runs += r;
        if let Some(f) = f {
            println!("BXFAIL {{\"target\":\"syncx\",\"property\":\"C19\",\"label\":\"{}\",\"what\":\"{}\",\"seed\":{},\"params\":\"{}\"}}",
                f.label, f.what.replace('"', "'"), f.seed, f.params);
            failed = true;
        }
    }
    println!("BXSTAT {{\"target\":\"syncx\",\"schedules\":{},\"work_calls\":{},\"calls_with_an_output_full\":{},\"calls_with_uneven_streams\":{},\"stream_capacity\":\"default (4096000 bytes)\",\"secs\":{:.1}}}", runs, works.0, works.1, works.2, t0.elapsed().as_secs_f64());
    if failed {
        panic!("bounded derive-user check failed");
    }
}
