// bx ring harness: BOUNDED contract check of the real circular buffer (never counted as proof).
//
// Drives the real rustradio::circular_buffer::Buffer (one page, 4 samples of 1024 bytes, real mmap) through
// operation sequences -- acquire a write window, fill it, commit n <= k with tags, consume m, with the commit
// possibly delayed past a consume -- and checks after every step the same contract the Verus unit `ring` proves:
// the read window shows exactly the committed-and-unconsumed samples in order (C01), readable + writable ==
// capacity (C01), every tag exactly once at its window-relative position, same-sample tags in commit order,
// none for consumed samples (C02).  Bounds: exhaustive over all sequences of BX_DEPTH (default 4) steps from
// each of the 4 ring offsets, plus BX_RANDOM (default 200000) random steps.  First divergence is printed as
// `BXFAIL {json}`.
use rustradio::circular_buffer::{Buffer, BufferWriter};
use rustradio::stream::{Tag, TagValue};
use std::collections::VecDeque;
use std::sync::Arc;

type E = [u8; 1024];
const CAP: usize = 4;

#[derive(Clone, Debug)]
enum Op {
    Acquire(usize),                    // acquire a write window and fill its first k samples
    Commit(usize, Vec<(usize, u64)>),  // commit n samples of the outstanding window, tags (pos, id)
    Consume(usize),
}

struct World {
    cap: usize,
    b: Arc<Buffer<E>>,
    model: VecDeque<(u8, Vec<u64>)>,
    win: Option<(BufferWriter<E>, Vec<u8>)>,
    next_val: u8,
    next_id: u64,
    trace: Vec<String>,
}

fn fail(w: &World, prop: &str, label: &str, what: String) -> String {
    format!(
        "BXFAIL {{\"target\":\"ring\",\"property\":\"{}\",\"label\":\"{}\",\"what\":\"{}\",\"ops\":[{}]}}",
        prop,
        label,
        what.replace('"', "'"),
        w.trace.iter().map(|s| format!("\"{}\"", s)).collect::<Vec<_>>().join(",")
    )
}

impl World {
    fn new() -> World {
        World::with_pages(1)
    }
    /// `pages` pages of 4 samples each: 1 page = capacity 4 (exhaustive search), 3 / 5 / 6 pages = capacities 12 / 20 /
    /// 24, which are NOT powers of two (position arithmetic done with masks instead of `%` is wrong exactly there)
    fn with_pages(pages: usize) -> World {
        World {
            cap: CAP * pages,
            b: Arc::new(Buffer::new(4096 * pages).expect("Buffer::new")),
            model: VecDeque::new(),
            win: None,
            next_val: 1,
            next_id: 1,
            trace: vec![],
        }
    }
    fn free(&self) -> usize {
        self.cap - self.model.len()
    }
    fn check(&self) -> Result<(), String> {
        let (r, tags) = self.b.clone().read_buf().map_err(|e| format!("read_buf: {e:?}"))?;
        if r.len() != self.model.len() {
            return Err(fail(self, "C01", "C01.read_buf.window-is-committed-unconsumed",
                format!("read window has {} samples, {} committed and unconsumed", r.len(), self.model.len())));
        }
        for (i, (v, _)) in self.model.iter().enumerate() {
            let s = &r.slice()[i];
            if s.iter().any(|x| x != v) {
                return Err(fail(self, "C01", "C01.fifo.samples-in-commit-order-bit-identical",
                    format!("sample {} of the read window is {:?}.. but {} was committed there", i, &s[..2], v)));
            }
        }
        drop(r);
        let wl = self.b.clone().write_buf().map_err(|e| format!("write_buf: {e:?}"))?.len();
        if wl + self.model.len() != self.cap {
            return Err(fail(self, "C01", "C01.free.readable-plus-writable-is-capacity",
                format!("readable {} + writable {} != capacity {}", self.model.len(), wl, self.cap)));
        }
        let mut want: Vec<(usize, u64)> = vec![];
        for (i, (_, ids)) in self.model.iter().enumerate() {
            for id in ids {
                want.push((i, *id));
            }
        }
        let got: Vec<(usize, u64)> = tags
            .iter()
            .map(|t| (t.pos(), match t.val() { TagValue::U64(x) => *x, _ => u64::MAX }))
            .collect();
        if got != want {
            return Err(fail(self, "C02", "C02.read_buf.each-tag-exactly-once",
                format!("reader is shown tags (pos,id) {:?}, committed and unconsumed are {:?}", got, want)));
        }
        if tags.iter().any(|t| t.key() != "k") {
            return Err(fail(self, "C02", "C02.read_buf.each-tag-exactly-once", "tag key changed".into()));
        }
        Ok(())
    }
    fn apply(&mut self, op: &Op) -> Result<(), String> {
        self.trace.push(format!("{:?}", op));
        match op {
            Op::Acquire(k) => {
                let mut w = self.b.clone().write_buf().map_err(|e| format!("{e:?}"))?;
                let mut vals = vec![];
                for i in 0..*k {
                    let v = self.next_val;
                    self.next_val = if self.next_val == 250 { 1 } else { self.next_val + 1 };
                    w.slice()[i] = [v; 1024];
                    vals.push(v);
                }
                self.win = Some((w, vals));
            }
            Op::Commit(n, tags) => {
                let (w, vals) = self.win.take().expect("commit without window");
                let ts: Vec<Tag> = tags.iter().map(|(p, id)| Tag::new(*p, "k", TagValue::U64(*id))).collect();
                w.produce(*n, &ts);
                for i in 0..*n {
                    let ids: Vec<u64> = tags.iter().filter(|(p, _)| *p == i).map(|(_, id)| *id).collect();
                    self.model.push_back((vals[i], ids));
                }
            }
            Op::Consume(m) => {
                let (r, _) = self.b.clone().read_buf().map_err(|e| format!("{e:?}"))?;
                r.consume(*m);
                for _ in 0..*m {
                    self.model.pop_front();
                }
            }
        }
        self.check()
    }
    /// operations possible in this state (deterministic enumeration)
    fn ops(&mut self) -> Vec<Op> {
        let mut v = vec![];
        match &self.win {
            None => {
                for k in 0..=self.free() {
                    v.push(Op::Acquire(k));
                }
            }
            Some((_, vals)) => {
                let k = std::cmp::min(vals.len(), self.free());
                for n in 0..=k {
                    let a = self.next_id;
                    v.push(Op::Commit(n, vec![]));
                    if n > 0 {
                        v.push(Op::Commit(n, vec![(0, a)]));
                        v.push(Op::Commit(n, vec![(n - 1, a), (n - 1, a + 1)]));
                        if n > 1 {
                            v.push(Op::Commit(n, vec![(0, a), (n - 1, a + 1)]));
                        }
                    }
                }
            }
        }
        for m in 0..=self.model.len() {
            v.push(Op::Consume(m));
        }
        self.next_id += 2;
        v
    }
}

fn replay(pages: usize, prefix: &[Op]) -> Result<World, String> {
    let mut w = World::with_pages(pages);
    w.check()?;
    for op in prefix {
        w.apply(op)?;
    }
    Ok(w)
}

fn dfs(pages: usize, prefix: &mut Vec<Op>, depth: usize, count: &mut u64) -> Result<(), String> {
    let mut w = replay(pages, prefix)?;
    *count += 1;
    if depth == 0 {
        return Ok(());
    }
    let ops = w.ops();
    drop(w);
    for op in ops {
        prefix.push(op);
        dfs(pages, prefix, depth - 1, count)?;
        prefix.pop();
    }
    Ok(())
}

fn refusals() -> Result<(), String> {
    // a commit or consume larger than what the stream can honour is refused (panic), at every fill level
    for used in 0..=CAP {
        for over in [true, false] {
            let r = std::panic::catch_unwind(|| {
                let b: Arc<Buffer<E>> = Arc::new(Buffer::new(4096).unwrap());
                let w = b.clone().write_buf().unwrap();
                w.produce(used, &[]);
                if over {
                    let w = b.clone().write_buf().unwrap();
                    w.produce(CAP - used + 1, &[]);
                } else {
                    let (r, _) = b.clone().read_buf().unwrap();
                    r.consume(used + 1);
                }
            });
            if r.is_ok() {
                let what = if over { "commit" } else { "consume" };
                return Err(format!(
                    "BXFAIL {{\"target\":\"ring\",\"property\":\"C01\",\"label\":\"C01.{}.refuses-more-than-{}\",\"what\":\"{} of one more than possible was accepted with {} of {} samples buffered\",\"ops\":[]}}",
                    if over { "produce" } else { "consume" }, if over { "writable" } else { "readable" }, what, used, CAP));
            }
        }
    }
    // two write windows taken before either commits: the second (now stale) window must not be able to commit beyond
    // what is free at the time of ITS commit
    for first in 1..=CAP {
        for second in (CAP - first + 1)..=CAP {
            let r = std::panic::catch_unwind(|| {
                let b: Arc<Buffer<E>> = Arc::new(Buffer::new(4096).unwrap());
                let w1 = b.clone().write_buf().unwrap();
                let w2 = b.clone().write_buf().unwrap();
                w1.produce(first, &[]);
                w2.produce(second, &[]);
                let (r, _) = b.clone().read_buf().unwrap();
                r.len()
            });
            if let Ok(readable) = r {
                return Err(format!(
                    "BXFAIL {{\"target\":\"ring\",\"property\":\"C01\",\"label\":\"C01.produce.refuses-more-than-writable\",\"what\":\"two windows taken from an empty stream of {} samples; committing {} through the first and then {} through the second (stale) one was accepted; {} samples readable\",\"ops\":[]}}",
                    CAP, first, second, readable));
            }
        }
    }
    // an element size that does not divide the size, and a zero-sized element, are refused
    if Buffer::<[u8; 12]>::new(4096).is_ok() {
        return Err("BXFAIL {\"target\":\"ring\",\"property\":\"C01\",\"label\":\"C01.new.element-size-divides\",\"what\":\"12-byte element accepted for a 4096-byte buffer\",\"ops\":[]}".into());
    }
    Ok(())
}

#[test]
fn bx_ring() {
    std::panic::set_hook(Box::new(|i| { if let Some(l) = i.location() { if l.file().starts_with("tests/") { eprintln!("harness panic: {i}"); } } }));
    let depth: usize = std::env::var("BX_DEPTH").ok().and_then(|s| s.parse().ok()).unwrap_or(4);
    let nrand: u64 = std::env::var("BX_RANDOM").ok().and_then(|s| s.parse().ok()).unwrap_or(200_000);
    let mut count = 0u64;
    let mut res: Result<(), String> = refusals();
    // exhaustive from each ring offset: shift the ring by `off` first
    if res.is_ok() {
        for off in 0..CAP {
            let mut prefix = vec![];
            if off > 0 {
                prefix.push(Op::Acquire(off));
                prefix.push(Op::Commit(off, vec![]));
                prefix.push(Op::Consume(off));
            }
            res = dfs(1, &mut prefix, depth, &mut count);
            if res.is_err() {
                break;
            }
        }
    }
    // capacities that are not powers of two (12, 20, 24 samples): shorter exhaustive search from offsets around the
    // wrap point and from a full ring
    if res.is_ok() {
        'np2: for pages in [3usize, 5, 6] {
            let cap = CAP * pages;
            for off in [0, 1, cap / 2, cap - 2, cap - 1] {
                for fill in [0, 1, cap - 1, cap] {
                    let mut prefix = vec![];
                    if off > 0 {
                        prefix.push(Op::Acquire(off));
                        prefix.push(Op::Commit(off, vec![]));
                        prefix.push(Op::Consume(off));
                    }
                    if fill > 0 {
                        prefix.push(Op::Acquire(fill));
                        prefix.push(Op::Commit(fill, vec![(0, 900), (fill - 1, 901)]));
                    }
                    res = dfs(pages, &mut prefix, 2, &mut count);   // the branching factor grows with the capacity: two steps from each of the 60 start states
                    if res.is_err() {
                        break 'np2;
                    }
                }
            }
        }
    }
    // many tags per sample in one window that crosses the wrap point: the order of same-sample tags must be the commit
    // order however many there are (an unstable sort only shows beyond a few dozen elements)
    if res.is_ok() {
        'many: for pages in [1usize, 3] {
            let cap = CAP * pages;
            for off in [1, cap / 2, cap - 1] {
                let mut w = World::with_pages(pages);
                let mut tags = vec![];
                let mut id = 5000u64;
                for p in 0..cap {
                    for _ in 0..(if p % 2 == 0 { 13 } else { 2 }) {
                        tags.push((p, id));
                        id += 1;
                    }
                }
                for op in [Op::Acquire(off), Op::Commit(off, vec![]), Op::Consume(off), Op::Acquire(cap), Op::Commit(cap, tags), Op::Consume(1), Op::Consume(cap - 1)] {
                    if let Err(e) = w.apply(&op) {
                        res = Err(e);
                        break 'many;
                    }
                    count += 1;
                }
            }
        }
    }
    // random walk
    let mut steps = 0u64;
    if res.is_ok() {
        let mut seed: u64 = std::env::var("VERIF_SEED").ok().and_then(|s| s.parse().ok()).unwrap_or(1) * 2654435761 + 12345;
        let mut w = World::new();
        let mut restarts = 0usize;
        'walk: for _ in 0..nrand {
            seed ^= seed << 13;
            seed ^= seed >> 7;
            seed ^= seed << 17;
            if w.trace.len() > 40 {
                // keep the trace replayable: restart from a fresh buffer now and then (capacities 4, 12, 20, 24 in turn)
                restarts += 1;
                w = World::with_pages([1, 3, 5, 6][restarts % 4]);
            }
            let ops = w.ops();
            let op = ops[(seed % ops.len() as u64) as usize].clone();
            if let Err(e) = w.apply(&op) {
                res = Err(e);
                break 'walk;
            }
            steps += 1;
        }
    }
    println!("BXSTAT {{\"target\":\"ring\",\"sequences\":{},\"random_steps\":{},\"depth\":{}}}", count, steps, depth);
    if let Err(e) = res {
        println!("{}", e);
        panic!("bounded ring contract check failed");
    }
}
