// F06 (C12): FirFilter forwarded the tags of the whole read window, including the un-consumed overlap
// (ntaps-1 samples) and remainder; those tags were delivered again by the next call (duplicates) and were
// committed beyond the produced samples.
use rustradio::block::Block;
use rustradio::blocks::*;
use rustradio::stream::TagValue;
use rustradio::Repeat;
#[test]
fn f06_each_input_tag_once() {
    let (mut vs, s) = VectorSourceBuilder::new(vec![1.0f32]).repeat(Repeat::infinite()).build();
    for _ in 0..5 { vs.work().unwrap(); }                 // 5 samples, a `repeat(k)` tag on each
    let (mut fir, out) = FirFilter::new(s, &[1.0f32, 0.0, 0.0]);
    fir.work().unwrap();                                  // consumes 3, keeps 2 as overlap
    for _ in 0..3 { vs.work().unwrap(); }
    fir.work().unwrap();
    let (r, tags) = out.read_buf().unwrap();
    assert_eq!(r.len(), 6);
    for k in 0..6u64 {
        let c = tags.iter().filter(|t| t.key() == "VectorSource::repeat" && *t.val() == TagValue::U64(k)).count();
        assert_eq!(c, 1, "tag repeat({k}) delivered {c} times: {:?}", tags);
    }
}
