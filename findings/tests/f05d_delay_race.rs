// F05d (C08): with a concurrent consumer, Delay could emit input samples before the delay's zero samples were
// complete: after a partial zero fill took all free output space, work() went on to copy input into whatever
// space the consumer freed in the meantime.
use rustradio::block::Block;
use rustradio::blocks::*;
use std::sync::atomic::{AtomicBool, Ordering};
use std::sync::Arc;

#[test]
fn f05d_no_input_before_delay_complete() {
    const DELAY: usize = 5_000_000;   // larger than one stream buffer (4_096_000)
    for trial in 0..2000 {
        let (mut vs, s) = VectorSource::new(vec![7u8; 4_096_000]);
        vs.work().unwrap();
        let (mut d, out) = Delay::new(s, DELAY);
        let stop = Arc::new(AtomicBool::new(false));
        let stop2 = stop.clone();
        let consumer = std::thread::spawn(move || {
            let mut seen = 0usize;
            let mut bad: Option<usize> = None;
            while !stop2.load(Ordering::Relaxed) || seen < DELAY + 10 {
                let (r, _) = out.read_buf().unwrap();
                let n = r.len();
                if n == 0 { if stop2.load(Ordering::Relaxed) { break; } continue; }
                // O(1) probe so that the consumer is fast enough to hit the window: first and last sample
                for i in [0, n - 1] {
                    if seen + i < DELAY && r.slice()[i] != 0 && bad.is_none() { bad = Some(seen + i); }
                }
                r.consume(n);
                seen += n;
            }
            bad
        });
        for _ in 0..50 { let _ = d.work().unwrap(); }
        stop.store(true, Ordering::Relaxed);
        let bad = consumer.join().unwrap();
        assert!(bad.is_none(), "trial {trial}: input sample appeared at output index {} < delay {DELAY}", bad.unwrap());
    }
}
