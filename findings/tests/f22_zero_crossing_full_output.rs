// F22/F23 (C08): ZeroCrossing and SymbolSync left their sample loop with `break` right after writing the output sample
// that filled the output window -- after counting the input sample as consumed but BEFORE updating the sign / counter
// state for it.  The clock-recovery state then lags one sample behind the input, so everything emitted afterwards
// differs from a run in which the output never filled.  F24/F25: with the optional clock output attached and fuller
// than the main output, ZeroCrossing indexed an empty clock window (panic) and SymbolSync ignored the clock window's
// length altogether (panic: index out of bounds) and unwrapped write_buf().
use rustradio::block::{Block, BlockRet};
use rustradio::blocks::*;
use rustradio::stream::{new_stream, ReadStream, WriteStream};

fn sig(n: usize) -> Vec<f32> {
    (0..n).map(|i| ((i as f32) * 0.21 + ((i / 97) as f32) * 0.7).sin()).collect()
}
fn feed(w: &WriteStream<f32>, data: &[f32], pos: &mut usize) {
    let mut wb = w.write_buf().unwrap();
    let n = wb.len().min(data.len() - *pos);
    wb.fill_from_slice(&data[*pos..*pos + n]);
    wb.produce(n, &[]);
    *pos += n;
}
fn drain(r: &ReadStream<f32>, max: usize, got: &mut Vec<u32>) {
    let (rb, _) = r.read_buf().unwrap();
    let n = max.min(rb.len());
    got.extend(rb.slice()[..n].iter().map(|x| x.to_bits()));
    rb.consume(n);
}
/// `lazy`: let the output fill up completely once before draining it
fn run(mut blk: impl Block, w: WriteStream<f32>, out: ReadStream<f32>, data: &[f32], lazy: bool) -> Vec<u32> {
    let mut pos = 0;
    let mut got = vec![];
    let mut filled = !lazy;
    for _ in 0..200 {
        feed(&w, data, &mut pos);
        let full = matches!(blk.work().unwrap(), BlockRet::WaitForStream(_, _));
        if full { filled = true; }
        if filled { drain(&out, usize::MAX, &mut got); }
    }
    got
}
#[test]
fn f22_zero_crossing_output_does_not_depend_on_output_space() {
    let data = sig(4_400_000);
    let mk = || { let (w, r) = new_stream::<f32>(); let (b, o) = ZeroCrossing::new(r, 3.7, 0.0); (b, w, o) };
    let (b, w, o) = mk();
    let a = run(b, w, o, &data, false);
    let (b, w, o) = mk();
    let z = run(b, w, o, &data, true);
    assert!(a.len() > 1_100_000);
    assert_eq!(a.len(), z.len(), "number of symbols differs");
    assert!(a == z, "first difference at output sample {:?}", a.iter().zip(z.iter()).position(|(x, y)| x != y));
}
#[test]
fn f23_symbol_sync_output_does_not_depend_on_output_space() {
    let data = sig(5_500_000);
    let mk = || {
        let (w, r) = new_stream::<f32>();
        let cf = rustradio::iir_filter::IirFilter::new(&[0.5f32, 0.5]);
        let (b, o) = SymbolSync::new(r, 4.3, 0.1, Box::new(rustradio::symbol_sync::TedZeroCrossing::new()), Box::new(cf));
        (b, w, o)
    };
    let (b, w, o) = mk();
    let a = run(b, w, o, &data, false);
    let (b, w, o) = mk();
    let z = run(b, w, o, &data, true);
    assert!(a.len() > 1_100_000);
    assert_eq!(a.len(), z.len(), "number of symbols differs");
    assert!(a == z, "first difference at output sample {:?}", a.iter().zip(z.iter()).position(|(x, y)| x != y));
}
/// the clock output is never drained; the main output always is
fn clock_output_full(mut blk: impl Block, w: WriteStream<f32>, out: ReadStream<f32>, data: &[f32]) {
    let mut pos = 0;
    let mut got = vec![];
    let mut waits = 0;
    for _ in 0..400 {
        feed(&w, data, &mut pos);
        let before = got.len();
        let r = matches!(blk.work().unwrap(), BlockRet::WaitForStream(_, _));
        drain(&out, usize::MAX, &mut got);
        if r { waits += 1; } else { assert!(got.len() > before || pos < data.len(), "Again without progress"); }
    }
    assert!(waits > 0, "never reported a wait although the clock output is full");
    assert_eq!(got.len(), 1_024_000, "main output ran ahead of the (full) clock output");
}
#[test]
fn f24_zero_crossing_waits_when_the_clock_output_is_full() {
    let data = sig(5_000_000);
    let (w, r) = new_stream::<f32>();
    let (mut b, o) = ZeroCrossing::new(r, 3.7, 0.0);
    let _clock = b.out_clock();
    clock_output_full(b, w, o, &data);
}
#[test]
fn f25_symbol_sync_waits_when_the_clock_output_is_full() {
    let data = sig(6_000_000);
    let (w, r) = new_stream::<f32>();
    let cf = rustradio::iir_filter::IirFilter::new(&[0.5f32, 0.5]);
    let (mut b, o) = SymbolSync::new(r, 4.3, 0.1, Box::new(rustradio::symbol_sync::TedZeroCrossing::new()), Box::new(cf));
    let _clock = b.out_clock().unwrap();
    clock_output_full(b, w, o, &data);
}
