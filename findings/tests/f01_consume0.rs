// F01 (C02): Buffer::consume(0) discarded every buffered tag.
use rustradio::circular_buffer::Buffer;
use rustradio::stream::{Tag, TagValue};
use std::sync::Arc;
#[test]
fn f01_consume0_keeps_tags() {
    let b: Arc<Buffer<u8>> = Arc::new(Buffer::new(4096).unwrap());
    let w = b.clone().write_buf().unwrap();
    w.produce(10, &[Tag::new(3, "t", TagValue::Bool(true))]);
    let (r, tags) = b.clone().read_buf().unwrap();
    assert_eq!(tags.len(), 1);
    r.consume(0);
    let (_r, tags) = b.clone().read_buf().unwrap();
    assert_eq!(tags.len(), 1, "consume(0) discarded tags");
}
