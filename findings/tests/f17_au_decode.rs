// F17 (C14): AuDecode never consumed the rest of the header: once the header had been checked it was decoded again as
// PCM data, so the decoder's output started with (data_offset - 8) / 2 samples that were never encoded.
// F18 (C15): a data offset below 24 in a (malformed) header made `data_offset - 8` underflow or `head[4..8]` index out
// of range: a panic instead of an error value.
use rustradio::block::{Block, BlockRet};
use rustradio::blocks::*;
use rustradio::au::Encoding;
use rustradio::stream::new_stream;
#[test]
fn f17_decode_of_encode_has_no_extra_samples() {
    let input: Vec<f32> = vec![0.5, -0.25, 0.125, 1.0, -1.0, 0.0];
    let (mut src, s) = VectorSource::new(input.clone());
    src.work().unwrap();
    let (mut enc, e) = AuEncode::new(s, Encoding::Pcm16, 44100, 1);
    let (mut dec, out) = AuDecode::new(e, 44100);
    for _ in 0..20 { let _ = enc.work().unwrap(); let _ = dec.work().unwrap(); }
    let (r, _) = out.read_buf().unwrap();
    let want: Vec<f32> = input.iter().map(|x| ((x * 32767.0) as i16) as f32 / 32767.0).collect();
    assert_eq!(r.slice(), &want[..], "decoded {} samples, encoded {}", r.len(), want.len());
}
#[test]
fn f18_malformed_data_offset_is_an_error_not_a_panic() {
    for off in [0u32, 7, 8, 12, 23] {
        let (w, r) = new_stream::<u8>();
        let mut hdr = vec![];
        hdr.extend(0x2e736e64u32.to_be_bytes());
        hdr.extend(off.to_be_bytes());
        hdr.extend([0u8; 40]);
        { let mut wb = w.write_buf().unwrap(); wb.fill_from_slice(&hdr); wb.produce(hdr.len(), &[]); }
        let (mut dec, _out) = AuDecode::new(r, 44100);
        let res = std::panic::catch_unwind(std::panic::AssertUnwindSafe(|| {
            for _ in 0..6 { if dec.work().is_err() { return true; } }
            false
        }));
        assert!(res.is_ok(), "data offset {off}: AuDecode panicked on a malformed header");
        assert!(res.unwrap(), "data offset {off}: a header shorter than the fixed fields must be rejected");
    }
}
// F19 (C09, C15): a data offset larger than the stream buffer made AuDecode wait for more input than the stream can
// ever hold: the wait can never be satisfied and the pipeline hangs.
#[test]
fn f19_absurd_data_offset_is_an_error_not_an_unsatisfiable_wait() {
    let (w, r) = new_stream::<u8>();
    let mut hdr = vec![];
    hdr.extend(0x2e736e64u32.to_be_bytes());
    hdr.extend(0x7fff_ffffu32.to_be_bytes());
    hdr.extend([0u8; 64]);
    { let mut wb = w.write_buf().unwrap(); wb.fill_from_slice(&hdr); wb.produce(hdr.len(), &[]); }
    let cap = r.total_size();
    let (mut dec, _out) = AuDecode::new(r, 44100);
    for _ in 0..6 {
        match dec.work() {
            Err(_) => return,
            Ok(BlockRet::WaitForStream(_, need)) => assert!(need <= cap, "waits for {need} bytes on a stream that holds {cap}"),
            Ok(_) => {}
        }
    }
}
