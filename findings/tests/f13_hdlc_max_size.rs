// F13 (C13): a frame of exactly max_size bytes was dropped: the size check counted the bits of the closing flag
// that are buffered before the flag is recognised, so the effective maximum was max_size - 1 bytes.
use rustradio::block::Block;
use rustradio::blocks::*;
use rustradio::stream::new_stream;
#[test]
fn f13_frame_of_exactly_max_size_is_delivered() {
    // flag, 4 bytes 0x55 LSB first (no stuffing needed), flag
    let mut bits: Vec<u8> = vec![0, 1, 1, 1, 1, 1, 1, 0];
    for _ in 0..4 { bits.extend_from_slice(&[1, 0, 1, 0, 1, 0, 1, 0]); }
    bits.extend_from_slice(&[0, 1, 1, 1, 1, 1, 1, 0]);
    for max_size in [4usize, 5] {
        let (w, r) = new_stream::<u8>();
        {
            let mut wb = w.write_buf().unwrap();
            wb.fill_from_slice(&bits);
            wb.produce(bits.len(), &[]);
        }
        let (mut d, out) = HdlcDeframer::new(r, 1, max_size);
        d.set_checksum(false);
        d.work().unwrap();
        let got = out.pop().map(|p| p.0);
        assert_eq!(got, Some(vec![0x55u8; 4]), "max_size = {max_size}: a 4-byte frame is within the limit");
    }
}
