// F10 (C17): Mode::Append is documented as "Append to existing file, or create a new file if it doesn't
// exist", but opening an absent file failed.
use rustradio::blocks::*;
use rustradio::file_sink::{Mode, NoCopyFileSink};
use rustradio::stream::new_nocopy_stream;
#[test]
fn f10_append_creates_absent_file() {
    let dir = tempfile::tempdir().unwrap();
    let p = dir.path().join("nofile.bin");
    let (_src, s) = VectorSource::new(vec![1u8; 4]);
    let r = FileSink::<u8>::new(s, &p, Mode::Append);
    assert!(r.is_ok(), "append to absent file failed: {:?}", r.err());
    let p2 = dir.path().join("nofile2.bin");
    let (_tx, rx) = new_nocopy_stream::<String>();
    let r = NoCopyFileSink::<String>::new(rx, &p2, Mode::Append);
    assert!(r.is_ok(), "append (packet sink) to absent file failed: {:?}", r.err());
}
