// F38 (C16/C14): a data file whose length is not a multiple of the sample size (a recording cut short) leaves a
// partial sample in the source's byte buffer at end of file.  FileSource and SigMFSource kept those bytes when they
// rewound for the next repetition, so every repetition after the first was assembled from misaligned bytes.
use rustradio::block::{Block, BlockRet};
use rustradio::blocks::*;
use rustradio::{Float, Repeat};
use std::io::Write;

fn drain_to_eof(src: &mut dyn Block, out: &rustradio::stream::ReadStream<Float>) -> Vec<Float> {
    let mut got = vec![];
    for _ in 0..1000 {
        let r = src.work().unwrap();
        let (rb, _) = out.read_buf().unwrap();
        got.extend_from_slice(rb.slice());
        let n = rb.len();
        rb.consume(n);
        if matches!(r, BlockRet::EOF) { break; }
    }
    got
}
fn data_file(name: &str) -> (std::path::PathBuf, Vec<Float>) {
    let dir = std::env::temp_dir().join(format!("verif_f38_{}_{}", std::process::id(), name));
    let _ = std::fs::remove_dir_all(&dir);
    std::fs::create_dir_all(&dir).unwrap();
    let vals: Vec<Float> = vec![1.0, 2.5, -3.0, 4.25, 1000.0];
    let p = dir.join("rec.sigmf-data");
    let mut f = std::fs::File::create(&p).unwrap();
    for v in &vals { f.write_all(&v.to_le_bytes()).unwrap(); }
    f.write_all(&[0xAA, 0xBB]).unwrap(); // half a sample
    std::fs::write(dir.join("rec.sigmf-meta"), r#"{"global":{"core:version":"1.1.0","core:datatype":"rf32_le"},"captures":[],"annotations":[]}"#).unwrap();
    (dir, vals)
}
#[test]
fn f38_file_source_repeats_whole_samples_only() {
    let (dir, vals) = data_file("fs");
    let (mut src, out) = FileSource::<Float>::new(dir.join("rec.sigmf-data")).unwrap();
    src.repeat(Repeat::finite(3));
    let got = drain_to_eof(&mut src, &out);
    let want: Vec<Float> = vals.iter().chain(vals.iter()).chain(vals.iter()).copied().collect();
    assert_eq!(got, want);
}
#[test]
fn f38_sigmf_source_repeats_whole_samples_only() {
    let (dir, vals) = data_file("sm");
    let (mut src, out) = SigMFSourceBuilder::<Float>::new(dir.join("rec.sigmf")).repeat(Repeat::finite(3)).build().unwrap();
    let got = drain_to_eof(&mut src, &out);
    let want: Vec<Float> = vals.iter().chain(vals.iter()).chain(vals.iter()).copied().collect();
    assert_eq!(got, want);
}
