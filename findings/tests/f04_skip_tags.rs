// F04 (C12): Skip forwarded the tags of the whole read window while committing only `len` samples; a tag
// beyond the committed part lands on an unrelated output sample (and is delivered again later).
use rustradio::block::Block;
use rustradio::blocks::*;
use rustradio::Repeat;
#[test]
fn f04_skip_forwards_only_tags_of_copied_samples() {
    let (mut vs, s) = VectorSourceBuilder::new(vec![7u8; 3_000_000]).repeat(Repeat::infinite()).build();
    vs.work().unwrap();                         // repetition 0: 3_000_000 samples
    let (mut skip, out) = Skip::new(s, 0);
    skip.work().unwrap();                       // out now holds 3_000_000, 1_096_000 free
    vs.work().unwrap();                         // repetition 1 (tags at window pos 0)
    vs.work().unwrap();                         // first 1_096_000 of repetition 2 (tags at window pos 3_000_000)
    skip.work().unwrap();                       // copies only 1_096_000 samples
    let (r, tags) = out.read_buf().unwrap();
    assert_eq!(r.len(), 4_096_000);
    for t in &tags {
        if t.key() == "VectorSource::start" {
            assert!(t.pos() % 3_000_000 == 0, "start tag on sample {} which is not the start of a repetition", t.pos());
        }
    }
}
