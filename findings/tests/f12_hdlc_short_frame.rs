// F12 (C15, C13): HdlcDeframer with checksum checking on (the default) and min_size < 2: a frame of 0 or 1 bytes
// between two flags panicked (`bytes.len() - 2` underflows) instead of being dropped.
use rustradio::block::Block;
use rustradio::blocks::*;
use rustradio::stream::new_stream;
fn bits(s: &str) -> Vec<u8> { s.chars().filter(|c| *c == '0' || *c == '1').map(|c| (c == '1') as u8).collect() }
#[test]
fn f12_one_byte_frame_is_dropped_not_a_panic() {
    for (min_size, frame) in [(1usize, "01111110 01010101 01111110"), (0, "01111110 01111110 01111110"), (1, "01111110 01010101 01111110 0101010101010101 01111110")] {
        let (w, r) = new_stream::<u8>();
        let data = bits(frame);
        {
            let mut wb = w.write_buf().unwrap();
            wb.fill_from_slice(&data);
            wb.produce(data.len(), &[]);
        }
        let (mut d, out) = HdlcDeframer::new(r, min_size, 10);
        d.work().unwrap();            // panicked: attempt to subtract with overflow
        while out.pop().is_some() {}
    }
}
