// F11 (C15, KNOWN FINDING, not fixed): a stream byte > 1 panics the descrambler (assert!(i <= 1) in Lfsr::next).
use rustradio::block::Block;
use rustradio::blocks::*;
#[test]
fn f11_descrambler_survives_byte_2() {
    let (mut vs, s) = VectorSource::new(vec![0u8, 1, 2, 1]);
    vs.work().unwrap();
    let (mut d, _o) = Descrambler::new_g3ruh(s);
    let _ = d.work();       // panics: assertion failed: i <= 1
}
