// F08 (C09): VecToStream, output too small for the front packet: it waited on the INPUT stream for n
// *packets* instead of on the output stream for n samples of space.  With the upstream finished a runner then
// concludes the wait can never be satisfied and retires the block: the packet is lost.
use rustradio::block::{Block, BlockRet};
use rustradio::blocks::*;
use rustradio::stream::new_nocopy_stream;
#[test]
fn f08_wait_names_the_output_stream() {
    let (tx, rx) = new_nocopy_stream();
    let (mut b, _out) = VecToStream::<u8>::new(rx);
    tx.push(vec![1u8; 4_095_995], &[]);
    assert!(matches!(b.work().unwrap(), BlockRet::Again));      // output now has 5 samples free
    tx.push(vec![2u8; 10], &[]);
    drop(tx);                                                    // upstream is done
    match b.work().unwrap() {
        BlockRet::WaitForStream(w, n) => {
            assert_eq!(n, 10);
            // What the multithreaded runner does with the verdict:
            assert!(!w.wait(n), "wait() says the request can never be satisfied -> runner drops the last packet");
        }
        other => panic!("unexpected verdict {:?}", other),
    }
}
