// F02 (C01): an element size that does not divide the buffer size was accepted; samples that straddle the
// wrap point are then assembled from the wrong bytes.
use rustradio::circular_buffer::Buffer;
use std::sync::Arc;
#[test]
fn f02_nondividing_element_is_refused_or_consistent() {
    let r = Buffer::<[u8; 12]>::new(4096);
    let b = match r { Err(_) => return, Ok(b) => Arc::new(b) };   // refused: fine
    // accepted: then it must at least be a correct FIFO across the wrap point
    let cap = b.total_size();
    let mut next: u8 = 1;
    let mut expect: std::collections::VecDeque<[u8; 12]> = Default::default();
    for _round in 0..4 {
        let mut w = b.clone().write_buf().unwrap();
        let n = std::cmp::min(w.len(), cap - 3);
        for i in 0..n { let v = [next; 12]; next = next.wrapping_add(1); w.slice()[i] = v; expect.push_back(v); }
        w.produce(n, &[]);
        let (r, _) = b.clone().read_buf().unwrap();
        let got = r.slice().to_vec();
        assert_eq!(got.len(), expect.len());
        for (g, e) in got.iter().zip(expect.iter()) { assert_eq!(g, e, "sample corrupted across wrap-around"); }
        let m = got.len() - 1;
        r.consume(m);
        for _ in 0..m { expect.pop_front(); }
    }
}
