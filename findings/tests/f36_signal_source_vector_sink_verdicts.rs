// F36 (C09): SignalSourceComplex / SignalSourceFloat::work answered `Again` with a completely full output stream
// (nothing produced, no state change): a runner calls them again at once, forever, until the reader frees space.
// F37 (C09): VectorSink::work, once its storage is full, stopped consuming but kept waiting for ONE sample on an input
// that already holds samples: the wait is satisfied at once (busy loop in the multi-threaded runner) and the input is
// never drained, although the same call drops the surplus as long as at least one sample still fits.
use rustradio::block::{Block, BlockRet};
use rustradio::blocks::*;
use rustradio::stream::new_stream;

#[test]
fn f36_signal_source_waits_when_the_output_is_full() {
    let (mut src, out) = SignalSourceFloat::new(48000.0, 1000.0, 1.0);
    assert!(matches!(src.work().unwrap(), BlockRet::Again));
    let full = out.read_buf().unwrap().0.len();
    assert!(full > 1000);
    match src.work().unwrap() {
        BlockRet::WaitForStream(_, need) => assert!(need >= 1),
        other => panic!("output is full, nothing was produced, and the verdict is {other:?}"),
    }
    let (mut src, out) = SignalSourceComplex::new(48000.0, 1000.0, 1.0);
    assert!(matches!(src.work().unwrap(), BlockRet::Again));
    assert!(out.read_buf().unwrap().0.len() > 1000);
    assert!(matches!(src.work().unwrap(), BlockRet::WaitForStream(_, _)), "complex source answers Again with a full output");
}
#[test]
fn f37_vector_sink_keeps_draining_when_full() {
    let (w, r) = new_stream::<u32>();
    let mut sink = VectorSink::new(r, 3);
    let feed = |vals: &[u32]| { let mut wb = w.write_buf().unwrap(); wb.fill_from_slice(vals); wb.produce(vals.len(), &[]); };
    feed(&[1, 2, 3]);
    let _ = sink.work().unwrap();
    assert_eq!(sink.hook().data().samples(), &[1, 2, 3]);
    feed(&[4, 5]);
    let _ = sink.work().unwrap();
    assert_eq!(sink.hook().data().samples(), &[1, 2, 3]);
    // the wait it reports (one sample on its input) must not be one that is satisfied already
    assert_eq!(w.free(), 1_024_000, "the full sink left {} samples in its input and waits for 1", 1_024_000 - w.free());
}
