// F09 (C08, C10): RationalResampler, interpolating: when the output filled up in the middle of the copies of
// one input sample, the sample was consumed anyway and its remaining copies were later emitted as copies of the
// NEXT sample.
use rustradio::block::Block;
use rustradio::blocks::*;
#[test]
fn f09_interpolation_survives_full_output() {
    let n_in = 1_400_000usize;                     // 3 * n_in > 4_096_000 = output capacity (not a multiple of 3)
    let input: Vec<u8> = (0..n_in).map(|i| (i % 251) as u8).collect();
    let (mut src, s) = VectorSource::new(input.clone());
    src.work().unwrap();
    let (mut rr, out) = RationalResampler::new(s, 3, 1).unwrap();
    let mut got: Vec<u8> = Vec::new();
    for _ in 0..4 {
        rr.work().unwrap();
        let (r, _) = out.read_buf().unwrap();
        got.extend_from_slice(r.slice());
        let n = r.len();
        r.consume(n);
    }
    assert_eq!(got.len(), 3 * n_in);
    for (j, v) in got.iter().enumerate() {
        assert_eq!(*v, input[j / 3], "output sample {j} is not input sample {}", j / 3);
    }
}
