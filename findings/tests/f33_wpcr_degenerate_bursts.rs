// F33 (C15): Midpointer::work splits a burst into the samples above and not above the mean and indexes the median of each
// half; a constant burst (or a single sample, or one holding +inf) leaves one half empty: index out of bounds.
// F34 (C15): Wpcr's find_best_bin unwrapped the maximum of the FFT bins after the first two; a burst of 4, 5 or 6
// samples has at most two bins: unwrap on None.
use rustradio::block::Block;
use rustradio::blocks::*;
use rustradio::stream::new_nocopy_stream;
use rustradio::Float;

#[test]
fn f33_midpointer_survives_degenerate_bursts() {
    for burst in [vec![0.0 as Float; 8], vec![1.5], vec![3.0, 3.0], vec![Float::INFINITY, 1.0, 2.0], vec![], vec![1.0, -1.0, 1.0, -1.0]] {
        let (tx, rx) = new_nocopy_stream::<Vec<Float>>();
        let (mut b, out) = Midpointer::new(rx);
        tx.push(burst.clone(), &[]);
        let r = std::panic::catch_unwind(std::panic::AssertUnwindSafe(|| b.work().is_ok()));
        assert!(matches!(r, Ok(true)), "Midpointer::work panicked or failed on burst {burst:?}");
        let _ = out.pop();
    }
}
#[test]
fn f34_wpcr_survives_short_bursts() {
    for n in 0..=12usize {
        for pat in 0..4 {
            let burst: Vec<Float> = (0..n).map(|i| match pat { 0 => 1.0, 1 => if i % 2 == 0 { 1.0 } else { -1.0 }, 2 => if (i / 2) % 2 == 0 { 1.0 } else { -1.0 }, _ => i as Float - 2.5 }).collect();
            let (tx, rx) = new_nocopy_stream::<Vec<Float>>();
            let (mut b, out) = WpcrBuilder::new(rx).build();
            tx.push(burst.clone(), &[]);
            let r = std::panic::catch_unwind(std::panic::AssertUnwindSafe(|| b.work().is_ok()));
            assert!(matches!(r, Ok(true)), "Wpcr::work panicked or failed on burst {burst:?}");
            let _ = out.pop();
        }
    }
}
