// F05 (C08 C09 C12 C15): Delay::work
use rustradio::block::{Block, BlockRet};
use rustradio::blocks::*;
use rustradio::Repeat;

// (a) read window longer than write window: fill_from_slice(input.slice()) panicked
#[test]
fn f05a_input_longer_than_output_space() {
    let n = 4_096_000usize;
    let (mut src, s) = VectorSource::new(vec![1u8; n]);
    let _ = src.work().unwrap();
    let (mut d, o) = Delay::new(s, 1);
    let _ = d.work().unwrap();                  // panicked: source slice length does not match
    let (r, _) = o.read_buf().unwrap();
    assert_eq!(r.len(), n);
    assert_eq!(r.slice()[0], 0);
    assert_eq!(r.slice()[1], 1);
}

// (b) tags of samples that were not copied were committed too
#[test]
fn f05b_only_tags_of_copied_samples() {
    let (mut vs, s) = VectorSourceBuilder::new(vec![7u8; 3_000_000]).repeat(Repeat::infinite()).build();
    vs.work().unwrap();
    let (mut d, out) = Delay::new(s, 0);
    d.work().unwrap();                          // out holds 3_000_000, 1_096_000 free
    vs.work().unwrap();
    vs.work().unwrap();                         // input: 4_096_000 pending, tags at window pos 0 and 3_000_000
    d.work().unwrap();                          // copies only 1_096_000
    let (r, tags) = out.read_buf().unwrap();
    assert_eq!(r.len(), 4_096_000);
    for t in &tags {
        if t.key() == "VectorSource::start" {
            assert!(t.pos() % 3_000_000 == 0, "start tag on sample {} which is not the start of a repetition", t.pos());
        }
    }
}

// (c) output full: must not answer "call me again" without doing anything
#[test]
fn f05c_full_output_is_a_wait_not_again() {
    let (mut vs, s) = VectorSourceBuilder::new(vec![7u8; 4_096_000]).repeat(Repeat::infinite()).build();
    vs.work().unwrap();
    let (mut d, _out) = Delay::new(s, 0);
    d.work().unwrap();                          // output now full
    vs.work().unwrap();
    for _ in 0..3 {
        let r = d.work().unwrap();
        assert!(matches!(r, BlockRet::WaitForStream(_, _)), "idle call answered {:?}", r);
    }
}
