// F28 (C09): AuEncode::work needs two free output bytes per sample but reported WaitForStream(dst, 1) when fewer than two
// were free.  With exactly one byte free that wait is already satisfied, the runner calls work() again at once, and the
// block asks for one byte again: a busy loop until the consumer frees a second byte.
use rustradio::au::{AuEncode, Encoding};
use rustradio::block::{Block, BlockRet};
use rustradio::stream::new_stream;

#[test]
fn f28_au_encode_asks_for_the_space_it_needs() {
    let (w, r) = new_stream::<f32>();
    let (mut enc, out) = AuEncode::new(r, Encoding::Pcm16, 8000, 1);
    // fill the output stream completely: 28 header bytes, then 2 bytes per sample
    let mut cap = 0;
    for _ in 0..100 {
        {
            let mut wb = w.write_buf().unwrap();
            let n = wb.len();
            for x in wb.slice().iter_mut() { *x = 0.25; }
            wb.produce(n, &[]);
        }
        let _ = enc.work().unwrap();
        let now = out.read_buf().unwrap().0.len();
        if now == cap && now > 28 { break; }
        cap = now;
    }
    assert!(cap > 1000 && cap % 2 == 0, "output did not fill up ({cap})");
    // the consumer takes ONE byte
    out.read_buf().unwrap().0.consume(1);
    match enc.work().unwrap() {
        BlockRet::WaitForStream(_, need) => assert!(need > 1, "one byte is free and the block says it is waiting for {need} byte(s) of output space"),
        other => panic!("expected a wait, got {other:?}"),
    }
    assert_eq!(out.read_buf().unwrap().0.len(), cap - 1, "nothing can have been written");
}
