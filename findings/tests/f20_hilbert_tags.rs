// F20 (C12): Hilbert committed n output samples but passed the tags of the whole read window to produce(); a tag on
// an input sample beyond n landed on an unrelated output sample (and was forwarded again later).
use rustradio::block::Block;
use rustradio::blocks::*;
use rustradio::stream::{new_stream, Tag, TagValue};
use rustradio::window::WindowType;
#[test]
fn f20_hilbert_forwards_only_tags_of_processed_samples() {
    let (w, r) = new_stream::<f32>();
    {
        let mut wb = w.write_buf().unwrap();
        let n = 600_000;           // more than the 512_000 complex samples the output stream holds
        for i in 0..n { wb.slice()[i] = (i % 7) as f32; }
        wb.produce(n, &[Tag::new(599_999, "mark", TagValue::Bool(true))]);
    }
    let (mut h, out) = Hilbert::new(r, 5, &WindowType::Hamming);
    h.work().unwrap();
    let (rb, tags) = out.read_buf().unwrap();
    assert_eq!(rb.len(), 512_000);
    assert!(tags.iter().all(|t| t.key() != "mark"), "the tag of input sample 599_999 showed up on output sample {:?}", tags.iter().map(|t| t.pos()).collect::<Vec<_>>());
}
