// F15 (C14, C15): TcpSource, a read shorter than the bytes still missing from a split sample: it copied bytes beyond
// what was read and then computed n - steal, which underflows (panic).
// F16 (C09, C16): with a full output stream the read buffer has length 0, read() returns 0 and the block reported EOF.
use rustradio::block::{Block, BlockRet};
use rustradio::blocks::*;
use std::io::Write;
#[test]
fn f15_one_byte_reads() {
    let listener = std::net::TcpListener::bind("[::1]:0").unwrap();
    let addr = listener.local_addr().unwrap();
    let data: Vec<u8> = vec![1.0f32, -2.5, 3.25].iter().flat_map(|f| f.to_le_bytes()).collect();
    let d2 = data.clone();
    let t = std::thread::spawn(move || {
        let (mut s, _) = listener.accept().unwrap();
        s.set_nodelay(true).unwrap();
        for b in d2 {
            s.write_all(&[b]).unwrap();
            s.flush().unwrap();
            std::thread::sleep(std::time::Duration::from_millis(15));
        }
    });
    let (mut src, out) = TcpSource::<f32>::new("[::1]", addr.port()).unwrap();
    let mut got = vec![];
    for _ in 0..40 {
        let eof = matches!(src.work().unwrap(), BlockRet::EOF);
        let (rb, _) = out.read_buf().unwrap();
        got.extend_from_slice(rb.slice());
        let l = rb.len();
        rb.consume(l);
        if eof { break; }
    }
    t.join().unwrap();
    assert_eq!(got, vec![1.0f32, -2.5, 3.25]);
}
#[test]
fn f16_full_output_is_not_eof() {
    let listener = std::net::TcpListener::bind("[::1]:0").unwrap();
    let addr = listener.local_addr().unwrap();
    let t = std::thread::spawn(move || {
        let (mut s, _) = listener.accept().unwrap();
        let chunk = vec![7u8; 1 << 16];
        // more than one stream buffer (4_096_000 bytes)
        for _ in 0..80 { if s.write_all(&chunk).is_err() { break; } }
    });
    let (mut src, out) = TcpSource::<u8>::new("[::1]", addr.port()).unwrap();
    let mut saw_eof_while_full = false;
    for _ in 0..400 {
        let eof = matches!(src.work().unwrap(), BlockRet::EOF);
        let full = out.read_buf().unwrap().0.len() == 4_096_000;
        if full {
            // one more call with the output completely full
            saw_eof_while_full = matches!(src.work().unwrap(), BlockRet::EOF);
            break;
        }
        if eof { break; }
    }
    drop(src);
    let _ = t.join();
    assert!(!saw_eof_while_full, "EOF reported because the output stream was full");
}
