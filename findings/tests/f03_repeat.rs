// F03 (C16): Repeat::again underflowed (panic) when no repeats were left.
use rustradio::Repeat;
#[test]
fn f03_again_after_exhaustion() {
    let mut r = Repeat::finite(0);
    assert!(!r.again());
    let mut r = Repeat::finite(1);
    assert!(!r.again());
    assert!(!r.again());
    assert!(r.done());
}
