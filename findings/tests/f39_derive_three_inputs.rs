// F39 (C19): a `sync` block with three inputs did not compile: the generated closure destructured the zipped inputs
// as a flat tuple (a, b, c) while a.zip(b).zip(c) yields ((a, b), c).  This file fails to BUILD before the fix
// (mismatched types inside #[derive(rustradio_macros::Block)]) and passes after it.
use rustradio::block::{Block, BlockRet};
use rustradio::stream::{new_stream, ReadStream, WriteStream};

#[derive(rustradio_macros::Block)]
#[rustradio(new, sync)]
pub struct Three {
    #[rustradio(in)]
    a: ReadStream<u32>,
    #[rustradio(in)]
    b: ReadStream<u32>,
    #[rustradio(in)]
    c: ReadStream<u32>,
    #[rustradio(out)]
    x: WriteStream<u32>,
}
impl Three {
    fn process_sync(&self, a: u32, b: u32, c: u32) -> u32 {
        a + 10 * b + 100 * c
    }
}

#[test]
fn three_inputs() {
    let (wa, ra) = new_stream::<u32>();
    let (wb, rb) = new_stream::<u32>();
    let (wc, rc) = new_stream::<u32>();
    for (w, base) in [(&wa, 1u32), (&wb, 2), (&wc, 3)] {
        let mut o = w.write_buf().unwrap();
        o.slice()[0] = base;
        o.slice()[1] = base + 3;
        o.produce(2, &[]);
    }
    let (mut blk, out) = Three::new(ra, rb, rc);
    assert!(matches!(blk.work().unwrap(), BlockRet::Again));
    let (r, _) = out.read_buf().unwrap();
    assert_eq!(r.slice(), &[1 + 20 + 300, 4 + 50 + 600]);
}
