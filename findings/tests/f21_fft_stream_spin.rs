// F21 (C09): FftStream answered "call me again" when its output had less than one FFT block of space, without
// consuming or producing anything: a busy loop for the runner.
use rustradio::block::{Block, BlockRet};
use rustradio::blocks::*;
use rustradio::stream::new_stream;
use rustradio::Complex;
#[test]
fn f21_full_output_is_a_wait_not_again() {
    let (w, r) = new_stream::<Complex>();
    {
        let mut wb = w.write_buf().unwrap();
        let n = wb.len();
        for i in 0..n { wb.slice()[i] = Complex::new(i as f32, 0.0); }
        wb.produce(n, &[]);
    }
    let (mut f, _out) = FftStream::new(r, 1024);
    assert!(matches!(f.work().unwrap(), BlockRet::Again));     // transforms 512_000 samples, output now full
    {
        let mut wb = w.write_buf().unwrap();
        let n = 4096;
        for i in 0..n { wb.slice()[i] = Complex::new(1.0, 0.0); }
        wb.produce(n, &[]);
    }
    for _ in 0..3 {
        let v = f.work().unwrap();
        assert!(matches!(v, BlockRet::WaitForStream(_, _)), "idle call answered {:?}", v);
    }
}
