// F26/F27 (C12): FftFilter collects `nsamples` input samples per FFT block (possibly over several calls) but handed the
// tag list of whatever read window it last saw to produce(): tags of samples not consumed yet were attached to the
// current block (and again to later ones), tags were not moved to the position of their sample inside the block, and
// tags of samples consumed by an earlier, incomplete call were lost.  FftFilterFloat forwarded the whole window's tags
// on both of its copy stages although it commits only n samples.
use rustradio::block::Block;
use rustradio::blocks::*;
use rustradio::stream::{new_stream, ReadStream, Tag, TagValue, WriteStream};
use rustradio::{Complex, Float};

fn tagged(i: usize) -> bool { i % 1000 == 17 }
fn feed<T: Copy>(w: &WriteStream<T>, data: &[T], pos: &mut usize, k: usize) {
    let mut wb = w.write_buf().unwrap();
    let n = k.min(wb.len()).min(data.len() - *pos);
    wb.fill_from_slice(&data[*pos..*pos + n]);
    let tags: Vec<Tag> = (0..n).filter(|i| tagged(*pos + i)).map(|i| Tag::new(i, "t", TagValue::U64((*pos + i) as u64))).collect();
    wb.produce(n, &tags);
    *pos += n;
}
fn drain<T: Copy>(r: &ReadStream<T>, count: &mut usize, otags: &mut Vec<(usize, u64)>) {
    let (rb, tags) = r.read_buf().unwrap();
    for t in &tags {
        if let TagValue::U64(v) = t.val() { otags.push((*count + t.pos(), *v)); }
    }
    let n = rb.len();
    *count += n;
    rb.consume(n);
}
fn check(count: usize, mut otags: Vec<(usize, u64)>) {
    otags.sort();
    let want: Vec<(usize, u64)> = (0..count).filter(|i| tagged(*i)).map(|i| (i, i as u64)).collect();
    assert!(count > 50_000);
    assert_eq!(otags.len(), want.len(), "{} tags delivered for {} tagged samples", otags.len(), want.len());
    assert!(otags == want, "first misplaced tag: {:?}", otags.iter().zip(want.iter()).find(|(a, b)| a != b));
}
#[test]
fn f26_fft_filter_each_tag_once_on_its_sample() {
    let data: Vec<Complex> = (0..100_000).map(|i| Complex::new((i % 13) as Float, 1.0)).collect();
    let taps: Vec<Complex> = (0..21).map(|i| Complex::new(1.0 / (1.0 + i as Float), 0.0)).collect();
    let (w, r) = new_stream::<Complex>();
    let (mut b, o) = FftFilter::new(r, &taps);
    let (mut pos, mut count, mut otags) = (0, 0, vec![]);
    // pieces smaller and larger than one FFT block
    for round in 0..4000 {
        feed(&w, &data, &mut pos, [7, 300, 1, 2500][round % 4]);
        b.work().unwrap();
        drain(&o, &mut count, &mut otags);
    }
    check(count, otags);
}
#[test]
fn f27_fft_filter_float_each_tag_once_on_its_sample() {
    let data: Vec<Float> = (0..100_000).map(|i| (i % 13) as Float).collect();
    let taps: Vec<Float> = (0..21).map(|i| 1.0 / (1.0 + i as Float)).collect();
    let (w, r) = new_stream::<Float>();
    let (mut b, o) = FftFilterFloat::new(r, &taps);
    let (mut pos, mut count, mut otags) = (0, 0, vec![]);
    for round in 0..4000 {
        feed(&w, &data, &mut pos, [7, 300, 1, 2500][round % 4]);
        b.work().unwrap();
        drain(&o, &mut count, &mut otags);
    }
    check(count, otags);
}
