// F35 (C13): "frames outside the size bounds are dropped without disturbing later frames".  HdlcDeframer notices that
// a frame is too long when the (max_size*8 + 8)th buffered bit is followed by one more bit; it then went to
// Unsynced(0xff) and threw that bit away.  For a frame of exactly max_size + 1 bytes that bit is the leading 0 of
// the closing flag; if the flag is shared with the next frame, the flag is never recognised and the NEXT frame is lost.
use rustradio::block::Block;
use rustradio::blocks::HdlcDeframer;
use rustradio::stream::new_stream;

const FLAG: [u8; 8] = [0, 1, 1, 1, 1, 1, 1, 0];
fn push_bytes(bytes: &[u8], out: &mut Vec<u8>) {
    let mut ones = 0;
    for b in bytes {
        for i in 0..8 {
            let bit = (b >> i) & 1;
            out.push(bit);
            if bit == 1 { ones += 1; if ones == 5 { out.push(0); ones = 0; } } else { ones = 0; }
        }
    }
}
fn deframe(bits: &[u8], max: usize) -> Vec<Vec<u8>> {
    let (w, r) = new_stream::<u8>();
    let (mut d, out) = HdlcDeframer::new(r, 1, max);
    d.set_checksum(false);
    {
        let mut wb = w.write_buf().unwrap();
        wb.fill_from_slice(bits);
        wb.produce(bits.len(), &[]);
    }
    d.work().unwrap();
    let mut got = vec![];
    while let Some((p, _)) = out.pop() { got.push(p); }
    got
}
#[test]
fn f35_overlong_frame_does_not_take_the_next_frame_with_it() {
    for over in 1..=3usize {
        let max = 4;
        let long: Vec<u8> = (0..max + over).map(|i| 0x11 * (i as u8 + 1)).collect();
        let next = vec![0x42u8, 0x24];
        let mut bits = vec![0, 0];
        bits.extend_from_slice(&FLAG);
        push_bytes(&long, &mut bits);
        bits.extend_from_slice(&FLAG); // closes the long frame AND opens the next one
        push_bytes(&next, &mut bits);
        bits.extend_from_slice(&FLAG);
        bits.extend_from_slice(&[0, 0, 0]);
        let got = deframe(&bits, max);
        assert_eq!(got, vec![next.clone()], "a frame of max_size + {over} bytes before it (shared flag): deframed {got:?}");
    }
}
