// F29 (C15): SigMFSource::work asserted that a read inside the data range never returns 0 ("Can't get EOF here"); a
// truncated archive (tar header promises more than the file holds) or a data file that shrank makes it panic.
// F30 (C16): a repeat count of 0 still played the data once (the counter was only consulted after the first pass).
// F31 (C15/C16): an empty data file with more than one repetition (or infinite) rewound to an empty range and hit
// assert_ne!(want_bytes, 0).
// F32 (C14): sigmf::write() recorded the datatype as "cf32"; SigMFSource::<Complex> (and the SigMF specification) want
// "cf32_le", so metadata written by this crate was rejected by this crate's own source.
use rustradio::block::{Block, BlockRet};
use rustradio::sigmf::SigMFSourceBuilder;
use rustradio::{Complex, Repeat};
use std::io::Write;

fn recording(name: &str, nsamples: usize) -> std::path::PathBuf {
    recording2(name, nsamples, true)
}
fn recording2(name: &str, nsamples: usize, patch_type: bool) -> std::path::PathBuf {
    let dir = std::env::temp_dir().join(format!("verif_f29_{}_{}", std::process::id(), name));
    let _ = std::fs::remove_dir_all(&dir);
    std::fs::create_dir_all(&dir).unwrap();
    let base = dir.join("rec.sigmf");
    rustradio::sigmf::write(dir.join("rec.sigmf-meta"), 48000.0, 100e6).unwrap();
    if patch_type {
        // keep F32 out of the other tests
        let m = std::fs::read_to_string(dir.join("rec.sigmf-meta")).unwrap().replace("\"cf32\"", "\"cf32_le\"");
        std::fs::write(dir.join("rec.sigmf-meta"), m).unwrap();
    }
    let mut f = std::fs::File::create(dir.join("rec.sigmf-data")).unwrap();
    for i in 0..nsamples {
        f.write_all(&(i as f32).to_le_bytes()).unwrap();
        f.write_all(&(-(i as f32)).to_le_bytes()).unwrap();
    }
    base
}
fn run_to_eof(src: &mut dyn Block, out: &rustradio::stream::ReadStream<Complex>) -> (usize, bool) {
    let mut total = 0;
    for _ in 0..1000 {
        let r = src.work();
        let (rb, _) = out.read_buf().unwrap();
        total += rb.len();
        let n = rb.len();
        rb.consume(n);
        match r {
            Ok(BlockRet::EOF) => return (total, true),
            Ok(_) => {}
            Err(_) => return (total, false),
        }
    }
    (total, false)
}
#[test]
fn f30_repeat_zero_plays_nothing() {
    let base = recording("r0", 100);
    let (mut src, out) = SigMFSourceBuilder::<Complex>::new(base).repeat(Repeat::finite(0)).build().unwrap();
    let (total, eof) = run_to_eof(&mut src, &out);
    assert!(eof);
    assert_eq!(total, 0, "repeat 0 emitted {total} samples");
}
#[test]
fn f30b_repeat_three_plays_three_times() {
    let base = recording("r3", 100);
    let (mut src, out) = SigMFSourceBuilder::<Complex>::new(base).repeat(Repeat::finite(3)).build().unwrap();
    let (total, eof) = run_to_eof(&mut src, &out);
    assert!(eof);
    assert_eq!(total, 300);
}
#[test]
fn f31_empty_data_repeated_does_not_panic() {
    let base = recording("empty", 0);
    let (mut src, out) = SigMFSourceBuilder::<Complex>::new(base).repeat(Repeat::finite(2)).build().unwrap();
    let (total, eof) = run_to_eof(&mut src, &out);
    assert!(eof);
    assert_eq!(total, 0);
}
#[test]
fn f29_truncated_data_is_an_error_not_a_panic() {
    let base = recording("trunc", 1000);
    let (mut src, out) = SigMFSourceBuilder::<Complex>::new(base.clone()).build().unwrap();
    // the data shrinks after the source has recorded its length (same situation: a tar member cut short)
    let data = base.parent().unwrap().join("rec.sigmf-data");
    std::fs::OpenOptions::new().write(true).open(&data).unwrap().set_len(800).unwrap();
    let (total, eof) = run_to_eof(&mut src, &out);
    assert!(!eof, "reported EOF as if all {total} of 1000 samples had been there");
    assert_eq!(total, 100);
}
#[test]
fn f32_metadata_written_by_the_crate_is_accepted_by_its_source() {
    let base = recording2("own", 10, false);
    let r = SigMFSourceBuilder::<Complex>::new(base).build();
    assert!(r.is_ok(), "{}", r.err().map(|e| e.to_string()).unwrap_or_default());
    let (mut src, out) = r.unwrap();
    let (total, eof) = run_to_eof(&mut src, &out);
    assert!(eof);
    assert_eq!(total, 10);
}
