// F07 (C16, C12): VectorSource::first was attached to the first sample of every chunk of the first
// repetition, not once on the first sample of the stream.
use rustradio::block::Block;
use rustradio::blocks::*;
#[test]
fn f07_first_tag_only_once() {
    let n = 4_096_000usize + 10;
    let (mut src, s) = VectorSource::new(vec![1u8; n]);
    let _ = src.work().unwrap();
    {
        let (r, t) = s.read_buf().unwrap();
        assert_eq!(t.iter().filter(|t| t.key() == "VectorSource::first").count(), 1);
        let l = r.len();
        r.consume(l);
    }
    let _ = src.work().unwrap();
    let (_r, t) = s.read_buf().unwrap();
    assert!(t.is_empty(), "tags on the second chunk of the first repetition: {:?}", t);
}
