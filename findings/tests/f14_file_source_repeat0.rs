// F14 (C16): FileSource with Repeat::finite(0) ("0 means not even once") emitted the file once: work() never
// asked the repeat counter whether it was already done before reading.
use rustradio::block::{Block, BlockRet};
use rustradio::blocks::*;
use rustradio::Repeat;
#[test]
fn f14_repeat_zero_emits_nothing() {
    let dir = tempfile::tempdir().unwrap();
    let p = dir.path().join("data.bin");
    std::fs::write(&p, [1u8, 2, 3, 4]).unwrap();
    let (mut src, out) = FileSource::<u8>::new(&p).unwrap();
    src.repeat(Repeat::finite(0));
    let mut n = 0;
    for _ in 0..10 {
        let r = src.work().unwrap();
        let (rb, _) = out.read_buf().unwrap();
        n += rb.len();
        let l = rb.len();
        rb.consume(l);
        if matches!(r, BlockRet::EOF) { break; }
    }
    assert_eq!(n, 0, "repeat 0 emitted {n} samples");
}
#[test]
fn f14_repeat_two_emits_twice() {
    let dir = tempfile::tempdir().unwrap();
    let p = dir.path().join("data.bin");
    std::fs::write(&p, [1u8, 2, 3, 4]).unwrap();
    let (mut src, out) = FileSource::<u8>::new(&p).unwrap();
    src.repeat(Repeat::finite(2));
    let mut got = vec![];
    for _ in 0..10 {
        let r = src.work().unwrap();
        let (rb, _) = out.read_buf().unwrap();
        got.extend_from_slice(rb.slice());
        let l = rb.len();
        rb.consume(l);
        if matches!(r, BlockRet::EOF) { break; }
    }
    assert_eq!(got, vec![1u8, 2, 3, 4, 1, 2, 3, 4]);
}
