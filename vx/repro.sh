#!/bin/sh
# repro.sh <test-file.rs> [git-rev]   -- run one reproducer (an integration test) against /repo's working
# tree (default) or against a revision of /repo, in a scratch copy outside /repo and /verif.
set -e
T="$1"; REV="$2"
D=/tmp/vxrepro_src
mkdir -p /verif/build
exec 9>/verif/build/repro.lock
flock 9
rm -rf "$D"; mkdir -p "$D"
trap 'rm -rf "$D"' EXIT
if [ -n "$REV" ]; then
  git -C /repo archive "$REV" | tar -x -C "$D"
else
  rsync -a --exclude target --exclude .git /repo/ "$D"/
fi
mkdir -p "$D/tests"
cp "$T" "$D/tests/verif_repro.rs"
find "$D" -name '*.rs' -exec touch {} +
cd "$D"
CARGO_TARGET_DIR=/verif/build/repro-target CARGO_NET_OFFLINE=true cargo test --offline --test verif_repro 2>&1 | grep -E "^test |test result|panicked|^error" 
