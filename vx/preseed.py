#!/usr/bin/env python3
"""preseed.py [-j N] [seed ...] -- like reseed.py, but in parallel and without touching /repo: every stored seed is
applied to its own scratch snapshot of /repo's HEAD, and the registered checks run against the snapshot (VERIF_REPO) with a
private scratch build tree per worker (VERIF_BUILD=/verif/build/w<k>).  Refreshes meta.json['verif']['checks'/'detected']."""
import concurrent.futures as cf, glob, json, os, queue, shutil, subprocess, sys

VERIF = '/verif'
args = sys.argv[1:]
J = 4
if args and args[0] == '-j':
    J = int(args[1]); args = args[2:]
names = args or sorted(os.path.basename(d.rstrip('/')) for d in glob.glob(VERIF + '/seeded/*/') if os.path.exists(d + 'meta.json') and os.path.exists(d + 'patch.diff') and os.path.exists(d + 'demo.rs'))
workers = queue.Queue()
for k in range(J):
    workers.put(k)


def one(name):
    k = workers.get()
    try:
        dst = os.path.join(VERIF, 'seeded', name)
        meta = json.load(open(os.path.join(dst, 'meta.json')))
        v = meta.setdefault('verif', {})
        props = sorted((v.get('checks') or {}).keys() - {'apply_error'}) or [meta['property'].split()[0].split(',')[0].split('/')[0]]
        S = '/tmp/ps_%s' % name
        shutil.rmtree(S, ignore_errors=True)
        os.makedirs(S)
        subprocess.run('git -C /repo archive HEAD | tar -x -C %s' % S, shell=True, check=True)
        a = subprocess.run('git init -q . && git apply --whitespace=nowarn %s' % os.path.join(dst, 'patch.diff'), shell=True, cwd=S, capture_output=True, text=True)
        checks = {}
        if a.returncode != 0:
            checks['apply_error'] = (a.stderr + a.stdout)[-600:]
        else:
            env = dict(os.environ, VERIF_REPO=S, VERIF_NOEVIDENCE='1', VERIF_BUILD=os.path.join(VERIF, 'build', 'w%d' % k))
            for p in props:
                r = subprocess.run([os.path.join(VERIF, 'check'), p], capture_output=True, text=True, env=env)
                checks[p] = {'rc': r.returncode, 'lines': [l for l in r.stdout.strip().split('\n') if not l.startswith('KNOWN-FINDING')][:8]}
        shutil.rmtree(S, ignore_errors=True)
        v['checks'] = checks
        v['detected'] = any(isinstance(c, dict) and c.get('rc') == 1 for c in checks.values())
        json.dump(meta, open(os.path.join(dst, 'meta.json'), 'w'), indent=1)
        return name, v['detected'], {p: (c.get('rc') if isinstance(c, dict) else 'APPLY-ERROR') for p, c in checks.items()}
    finally:
        workers.put(k)


with cf.ThreadPoolExecutor(max_workers=J) as ex:
    for name, det, rcs in ex.map(one, names):
        print(name, 'detected=%s' % det, rcs, flush=True)
