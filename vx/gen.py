"""Template processor: cuts real items out of /repo by span, applies the rewrite rules,
splices the unit's contracts, and emits one Verus file plus a line map.

Template directives (lines whose first non-blank characters are `//@`):

  //@unit NAME props=C01,C02 rules=VIS,ATTR,...
  //@cut KIND PATH ITEM [rules=+A,-B] [as=NEWNAME]      KIND in struct enum const type fn
  //@sigonly                                             (fn) keep signature, body becomes external_body
  //@props C01 C02                                       properties charged for unlabeled obligations
  //@sig PATTERN => REPLACEMENT                          token-pattern rewrite restricted to the signature
  //@ret NAME                                            name the return value
  //@attr TEXT                                           attribute line put in front of the fn
  //@requires / //@ensures                               clause lines follow: `[label] expr,`
  //@loop K                                              raw `invariant ... decreases ...` lines follow
  //@at start | //@after TEXT[#n] | //@before TEXT[#n] | //@loopstart K | //@loopend K
                                                         raw lines (proof blocks / ghost lets) follow
  //@notwin                                              do not generate the vacuity twin
  //@end
Text outside directives is the unit's spec prelude and is copied verbatim.
"""
import hashlib
import os
import re
from rtok import Source, tokenize, match_close, LostAnchor, OPEN, CLOSE
from rewrite import Rule, apply_rules, apply_rule, LineMap
import rules as RULES


class GenError(Exception):
    """Extraction cannot proceed (lost anchor, unsupported construct): exit 2, never a violation."""


class Line:
    __slots__ = ('text', 'kind', 'fn', 'label', 'src', 'props', 'twin')

    def __init__(self, text, kind='prelude', fn=None, label=None, src=None, props=None, twin=False):
        self.text, self.kind, self.fn, self.label, self.src, self.props = text, kind, fn, label, src, props
        self.twin = twin


_LABEL = re.compile(r'^\s*\[([^\]]+)\]\s*(.*)$')


def _parse_clauses(lines):
    """[(label, text)] -- a clause starts at a line with [label] or at a line following a clause end."""
    out = []
    for ln in lines:
        m = _LABEL.match(ln)
        if m:
            out.append([m.group(1), m.group(2)])
        elif out and ln.strip() and not out[-1][1].rstrip().endswith(','):
            out[-1][1] += '\n        ' + ln.strip()
        elif ln.strip():
            out.append([None, ln.strip()])
    return out


class FnSpec:
    def __init__(self):
        self.props = None
        self.sig = []
        self.ret = None
        self.attrs = []
        self.requires = []
        self.ensures = []
        self.loops = {}
        self.inserts = []     # (where, arg, lines)
        self.sigonly = False
        self.notwin = False
        self.decreases = None


def _find_stmt(body_toks, text_pat, nth):
    """Find nth statement in body_toks whose leading tokens equal the tokens of text_pat.
    Returns (first_tok_index, last_tok_index) of the statement."""
    # an identifier followed by `*` in the anchor text is a prefix wildcard: `retain_tags_*`
    raw = [t.text for t in tokenize(text_pat)]
    pt = []
    for t in raw:
        if t == '*' and pt and isinstance(pt[-1], str) and pt[-1].replace('_', 'a').isalnum():
            pt[-1] = (pt[-1],)
        else:
            pt.append(t)

    def _eq(tok, p):
        return tok.startswith(p[0]) if isinstance(p, tuple) else tok == p
    hits = []
    for i in range(len(body_toks)):
        if i > 0 and body_toks[i - 1].text not in ('{', '}', ';'):
            continue
        seg = [t.text for t in body_toks[i:i + len(pt)]]
        if len(seg) == len(pt) and all(_eq(a, b) for a, b in zip(seg, pt)):
            hits.append(i)
    if len(hits) < nth or not hits:
        raise LostAnchor('statement anchor `%s`#%d not found' % (text_pat, nth))
    i = hits[nth - 1]
    # statement end
    first = body_toks[i].text
    j = i
    if body_toks[i].kind == 'life':  # labelled loop
        first = body_toks[i + 2].text
    blocky = first in ('if', 'while', 'for', 'loop', 'match', '{', 'unsafe')
    depth = 0
    while j < len(body_toks):
        t = body_toks[j]
        if t.kind == 'punct':
            if t.text in OPEN:
                k = match_close(body_toks, j)
                if blocky and t.text == '{' and depth == 0:
                    nxt = body_toks[k + 1].text if k + 1 < len(body_toks) else ''
                    if nxt != 'else':
                        if nxt == ';':
                            return i, k + 1
                        return i, k
                j = k
            elif t.text == ';' and depth == 0:
                return i, j
            elif t.text in CLOSE:
                return i, j - 1      # tail expression of the enclosing block
        j += 1
    raise LostAnchor('statement `%s` has no end' % text_pat)


def _loops(body_toks):
    """Token indices of loop keywords in source order, with the index of their body `{`."""
    out = []
    for i, t in enumerate(body_toks):
        if t.kind == 'id' and t.text in ('while', 'for', 'loop'):
            if t.text == 'for' and i > 0 and body_toks[i - 1].text in ('impl', '>'):
                continue
            j = i + 1
            while j < len(body_toks) and body_toks[j].text != '{':
                if body_toks[j].text in ('(', '['):
                    j = match_close(body_toks, j)
                j += 1
            out.append((i, j, match_close(body_toks, j)))
    return out


class Unit:
    def __init__(self, name, repo, template_path):
        self.name = name
        self.repo = repo
        self.template_path = template_path
        self.lines = []          # [Line]
        self.rule_log = []
        self.cuts = []           # {kind,item,path,line,sha256}
        self.fns = {}            # fn display name -> {props, path, line, requires:n, ensures:n, invariants:n}
        self.props = []
        self.rules = []
        self.sources = {}
        self.twins = []          # (Line list) for the twin file
        self.clauses = []        # {fn,label,kind,text}

    def source(self, path):
        if path not in self.sources:
            if path.startswith('@expanded/'):
                # the macro expansion of /repo's current tree (vx/expand.py)
                import expand
                try:
                    self.sources[path] = Source(path, expand.get(self.repo, path.split('/', 1)[1]))
                except expand.ExpandError as e:
                    ge = GenError('%s' % e)
                    ge.derive_only = e.derive_only
                    ge.output = e.output
                    raise ge
                return self.sources[path]
            full = os.path.join(self.repo, path)
            if not os.path.exists(full):
                raise GenError('lost anchor: file %s missing' % path)
            self.sources[path] = Source(path, open(full).read())
        return self.sources[path]

    def _ruleset(self, spec):
        names = list(self.rules)
        if spec:
            for s in spec.split(','):
                if s.startswith('+'):
                    names.append(s[1:])
                elif s.startswith('-'):
                    names = [n for n in names if n != s[1:]]
                else:
                    names.append(s)
        out = []
        for n in names:
            if n not in RULES.R:
                raise GenError('unknown rule group %s' % n)
            out.extend(RULES.R[n])
        return out

    def emit(self, text, **kw):
        for ln in text.split('\n'):
            self.lines.append(Line(ln, **kw))

    # ------------------------------------------------------------------ template
    def process(self):
        tl = open(self.template_path).read().split('\n')
        i = 0
        while i < len(tl):
            ln = tl[i]
            s = ln.strip()
            if s.startswith('//@unit'):
                for kv in s.split()[2:]:
                    k, v = kv.split('=', 1)
                    if k == 'props':
                        self.props = v.split(',')
                    elif k == 'rules':
                        self.rules = v.split(',')
                i += 1
                continue
            if s.startswith('//@include'):
                inc = os.path.join(os.path.dirname(os.path.dirname(self.template_path)), s.split()[1])
                tl[i:i + 1] = open(inc).read().split('\n')
                continue
            if s.startswith('//@cut'):
                # module-level consts a restructured function turned out to need (vrun._find_consts)
                for cpath, cname in getattr(self, 'extra_consts', []):
                    self.do_cut('const', cpath, cname, {}, [])
                self.extra_consts = []
                parts = s.split()
                kind, path, item = parts[1], parts[2], parts[3]
                opts = dict(p.split('=', 1) for p in parts[4:])
                block = []
                i += 1
                if kind == 'fn':
                    while i < len(tl) and tl[i].strip() != '//@end':
                        block.append(tl[i])
                        i += 1
                    if i >= len(tl):
                        raise GenError('template: //@cut fn %s without //@end' % item)
                    i += 1
                self.do_cut(kind, path, item, opts, block)
                continue
            self.lines.append(Line(ln))
            i += 1

    def _fnspec(self, block):
        fs = FnSpec()
        cur = None
        buf = []

        def flush():
            nonlocal cur, buf
            if cur is None:
                return
            k = cur[0]
            if k == 'requires':
                fs.requires += _parse_clauses(buf)
            elif k == 'ensures':
                fs.ensures += _parse_clauses(buf)
            elif k == 'loop':
                fs.loops[int(cur[1])] = list(buf)
            elif k == 'decreases':
                fs.decreases = ' '.join(x.strip() for x in buf)
            else:
                fs.inserts.append((k, cur[1], list(buf)))
            cur, buf = None, []
        for ln in block:
            s = ln.strip()
            if s.startswith('//@'):
                flush()
                d = s[3:].split(None, 1)
                key = d[0]
                arg = d[1] if len(d) > 1 else ''
                if key == 'props':
                    fs.props = arg.split()
                elif key == 'sig':
                    a, b = arg.split('=>')
                    fs.sig.append((a.strip(), b.strip()))
                elif key == 'ret':
                    fs.ret = arg.strip()
                elif key == 'attr':
                    fs.attrs.append(arg)
                elif key == 'sigonly':
                    fs.sigonly = True
                elif key == 'notwin':
                    fs.notwin = True
                elif key in ('requires', 'ensures', 'decreases'):
                    cur = (key, None)
                elif key in ('loop', 'loopstart', 'loopend'):
                    cur = (key, arg.strip())
                elif key == 'at':
                    cur = ('at', arg.strip())
                elif key in ('after', 'before'):
                    cur = (key, arg.strip())
                else:
                    raise GenError('template: unknown directive //@%s' % key)
            else:
                # content lines may be written as `//  text` so that the template stays comment-only there
                m = re.match(r'^(\s*)//(?!@)(.*)$', ln)
                buf.append((m.group(1) + m.group(2)) if m else ln)
        flush()
        return fs

    # ------------------------------------------------------------------ cutting
    def do_cut(self, kind, path, item, opts, block):
        try:
            src = self.source(path)
            it, parent = src.find(kind, item)
        except LostAnchor as e:
            raise GenError('lost anchor: %s' % e)
        text, first_line = src.cut(it)
        sha = hashlib.sha256(text.encode()).hexdigest()
        self.cuts.append({'kind': kind, 'item': item, 'path': path, 'line': first_line,
                          'lines': text.count('\n') + 1, 'sha256': sha})
        where = '%s:%s' % (path, item)
        try:
            rs = list(getattr(self, 'extra_rules', [])) + self._ruleset(opts.get('rules'))
            if kind == 'fn' and any(r.rid == 'X-SYNCLOOP' for r in rs):
                # after X-XPAND (paths), before everything that looks inside the loop body
                k = next(i for i, r in enumerate(rs) if r.rid == 'X-SYNCLOOP')
                pre = RULES.apply_for_scan([r for r in rs[:k] if r.rid == 'X-XPAND'], text)
                rs = rs[:k] + RULES.sync_rules(pre) + rs[k + 1:]
            if kind == 'fn' and any(r.rid == 'X-WIN' for r in rs):
                rs = [r for r in rs if r.rid != 'X-WIN'] + RULES.win_rules(text)
            new, lmap = apply_rules(rs, text, first_line, self.rule_log, where)
        except ValueError as e:
            raise GenError('rule engine: %s in %s' % (e, where))
        if kind != 'fn':
            if opts.get('attr'):
                self.emit(opts['attr'].replace('~', ' '))
            for k, l in enumerate(new.split('\n')):
                self.lines.append(Line(l, kind='cut', src=(path, lmap.orig(k))))
            return
        fs = self._fnspec(block)
        self.splice_fn(path, item, new, lmap, fs, opts)

    def splice_fn(self, path, item, text, lmap, fs, opts):
        where = '%s:%s' % (path, item)
        disp = item
        props = fs.props or self.props
        toks = tokenize(text)
        # locate `fn`, params, body
        fi = next(i for i, t in enumerate(toks) if t.text == 'fn')
        pi = fi + 2
        if toks[pi].text == '<':
            from rtok import skip_generics
            pi = skip_generics(toks, pi)
        if toks[pi].text != '(':
            raise GenError('cannot parse signature of %s' % where)
        pclose = match_close(toks, pi)
        bi = pclose + 1
        while toks[bi].text != '{':
            if toks[bi].text in ('(', '['):
                bi = match_close(toks, bi)
            bi += 1
        bclose = match_close(toks, bi)
        sig_text = text[toks[fi].start:toks[bi].start]
        # signature rewrites
        sig_lmap = LineMap(sig_text, 0)
        for a, b in fs.sig:
            r = Rule('X-SIG', a, b)
            before = sig_text
            sig_text = apply_rule(r, sig_text, sig_lmap, self.rule_log, where)
            if sig_text == before:
                raise GenError('lost anchor: //@sig `%s` does not match signature of %s' % (a, where))
        if opts.get('as'):
            sig_text = re.sub(r'\bfn\s+\w+', 'fn ' + opts['as'], sig_text, count=1)
            disp = item
        # return value name
        st = tokenize(sig_text)
        s_pi = next(i for i, t in enumerate(st) if t.text == '(' and i >= 2)
        if st[2].text == '<':
            from rtok import skip_generics
            s_pi = skip_generics(st, 2)
        s_pclose = match_close(st, s_pi)
        where_idx = next((i for i in range(s_pclose, len(st)) if st[i].text == 'where'), None)
        arrow = s_pclose + 1 if s_pclose + 1 < len(st) and st[s_pclose + 1].text == '->' else None
        head = sig_text
        where_clause = ''
        if where_idx is not None:
            head = sig_text[:st[where_idx].start]
            where_clause = sig_text[st[where_idx].start:]
        if arrow is not None and fs.ret:
            rt_start = st[arrow + 1].start
            rt_end = st[where_idx - 1].end if where_idx is not None else len(head.rstrip())
            rtype = sig_text[rt_start:rt_end].strip()
            head = sig_text[:rt_start] + '(%s: %s)' % (fs.ret, rtype)
        head = head.rstrip()
        src_line0 = lmap.orig(text.count('\n', 0, toks[fi].start))
        meta = dict(fn=disp, props=props)
        pre_text = text[:toks[fi].start]
        self.fns[disp] = {'props': props, 'path': path, 'line': src_line0, 'requires': len(fs.requires),
                          'ensures': len(fs.ensures), 'invariants': 0, 'sigonly': fs.sigonly}

        def emit_fn(target, twin=False):
            def em(text_, **kw):
                for ln in text_.split('\n'):
                    target.append(Line(ln, twin=twin, **kw))
            if pre_text.strip():
                em(pre_text.rstrip(), kind='cut', src=(path, lmap.orig(0)), **meta)
            for a in fs.attrs:
                em(a, kind='attr', **meta)
            if fs.sigonly:
                em('#[verifier::external_body]', kind='attr', **meta)
            if twin:
                # proving `false` from a consistent precondition is hopeless: give up early (a contradictory
                # precondition proves it at once, whatever the limit)
                em('#[verifier::rlimit(2)]', kind='attr', **meta)
            h = head
            if twin:
                h = re.sub(r'\bfn\s+(\w+)', r'fn \1__twin', h, count=1)
            em(h, kind='sig', src=(path, src_line0), **meta)
            if where_clause.strip():
                em('    ' + where_clause.strip(), kind='sig', src=(path, src_line0), **meta)
            if fs.requires:
                em('    requires', kind='sig', **meta)
                for lab, c in fs.requires:
                    c = c if c.rstrip().endswith(',') else c + ','
                    em('        ' + c, kind='requires', label=lab, **meta)
            if fs.ensures or twin:
                em('    ensures', kind='sig', **meta)
                for lab, c in fs.ensures:
                    c = c if c.rstrip().endswith(',') else c + ','
                    em('        ' + c, kind='ensures', label=lab, **meta)
                if twin:
                    em('        false, // vacuity twin: this clause MUST fail', kind='twin', label='twin', **meta)
            if fs.decreases:
                em('    decreases ' + fs.decreases, kind='sig', **meta)
            if fs.sigonly:
                em('{ unimplemented!() }', kind='sig', **meta)
                return
            # body with insertions
            body_toks = toks[bi:bclose + 1]
            ins = []   # (offset in text, order, lines, kind, label)
            loops = _loops(body_toks)
            for k, lines in fs.loops.items():
                if k > len(loops):
                    raise GenError('lost anchor: loop %d of %s not found (%d loops)' % (k, where, len(loops)))
                ins.append((body_toks[loops[k - 1][1]].start, 0, lines, 'invariant'))
            if len(loops) and set(fs.loops) != set(range(1, len(loops) + 1)) and not os.environ.get('VX_LAX'):
                raise GenError('lost anchor: %s has %d loops but contracts for %s' %
                               (where, len(loops), sorted(fs.loops)))
            for kind_, arg, lines in fs.inserts:
                if kind_ == 'at' and arg == 'start':
                    ins.append((body_toks[0].end, 1, lines, 'proof'))
                elif kind_ == 'at' and arg == 'end':
                    ins.append((body_toks[-1].start, 1, lines, 'proof'))
                elif kind_ in ('after', 'before'):
                    m = re.match(r'^(.*?)(?:#(\d+))?$', arg)
                    try:
                        a, b = _find_stmt(body_toks, m.group(1).strip(), int(m.group(2) or 1))
                    except LostAnchor as e:
                        raise GenError('lost anchor: %s in %s' % (e, where))
                    off = body_toks[b].end if kind_ == 'after' else body_toks[a].start
                    ins.append((off, 1, lines, 'proof'))
                elif kind_ in ('loopstart', 'loopend'):
                    k = int(arg)
                    if k > len(loops):
                        raise GenError('lost anchor: loop %d of %s not found' % (k, where))
                    off = body_toks[loops[k - 1][1]].end if kind_ == 'loopstart' else body_toks[loops[k - 1][2]].start
                    ins.append((off, 1, lines, 'proof'))
            ins.sort(key=lambda x: (x[0], x[1]))
            pos = toks[bi].start
            cur = ''
            cur_meta = None
            out_lines = []

            def push(seg, kind_, base_off=None, label=None):
                nonlocal cur, cur_meta
                parts = seg.split('\n')
                for idx, p in enumerate(parts):
                    if idx > 0:
                        out_lines.append((cur, cur_meta))
                        cur, cur_meta = '', None
                    if p.strip() and cur_meta is None:
                        if kind_ == 'body':
                            off = base_off + sum(len(x) + 1 for x in parts[:idx])
                            cur_meta = ('body', (path, lmap.orig(text.count('\n', 0, off))), None)
                        else:
                            cur_meta = (kind_, None, label)
                    cur += p
            for off, _o, lines, kind_ in ins:
                push(text[pos:off], 'body', pos)
                pos = off
                push('\n', kind_)
                for l in lines:
                    lab = None
                    if kind_ == 'invariant':
                        m = _LABEL.match(l)
                        if m:
                            lab, l = m.group(1), '            ' + m.group(2)
                        if l.strip() and not l.strip().startswith(('invariant', 'decreases', '//')):
                            self.fns[disp]['invariants'] += 0 if twin else 1
                            if not twin:
                                self.clauses.append({'fn': disp, 'label': lab, 'kind': 'invariant', 'text': l.strip()})
                    push(l + '\n', kind_, label=lab)
            push(text[pos:toks[bclose].end], 'body', pos)
            out_lines.append((cur, cur_meta))
            for t_, m_ in out_lines:
                if m_ is None:
                    target.append(Line(t_, kind='body', twin=twin, **meta))
                else:
                    target.append(Line(t_, kind=m_[0], src=m_[1], label=m_[2], twin=twin, **meta))
        emit_fn(self.lines)
        for lab, c in fs.requires:
            self.clauses.append({'fn': disp, 'label': lab, 'kind': 'requires', 'text': ' '.join(c.split())})
        for lab, c in fs.ensures:
            self.clauses.append({'fn': disp, 'label': lab, 'kind': 'ensures', 'text': ' '.join(c.split())})
        if fs.requires and not fs.sigonly and not fs.notwin:
            tw = []
            emit_fn(tw, twin=True)
            self.twins.append((disp, tw))

    # ------------------------------------------------------------------ output
    def render(self, with_twins=False):
        """Returns (text, lines) -- twins are placed right after their original (inside the same impl)."""
        if not with_twins:
            return '\n'.join(l.text for l in self.lines) + '\n', list(self.lines)
        # insert each twin after the last line of its fn
        out = []
        last_idx = {}
        for i, l in enumerate(self.lines):
            if l.fn:
                last_idx[l.fn] = i
        tw = dict(self.twins)
        by_pos = {}
        for fn, idx in last_idx.items():
            if fn in tw:
                by_pos[idx] = tw[fn]
        for i, l in enumerate(self.lines):
            out.append(l)
            if i in by_pos:
                out.extend(by_pos[i])
        return '\n'.join(l.text for l in out) + '\n', out
