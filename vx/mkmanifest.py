#!/usr/bin/env python3
"""Regenerate /verif/MANIFEST.json from vx/props.py (claimed) and vx/na.py (not applicable)."""
import json, os, sys
HERE = os.path.dirname(os.path.abspath(__file__))
sys.path.insert(0, HERE)
import props as PROPS
import na as NA
VERIF = os.path.dirname(HERE)
checks = []
for pid in sorted(PROPS.P):
    sp = PROPS.P[pid]
    checks.append({
        'property_id': pid,
        'quick_cmd': './check %s --tier quick' % pid,
        'thorough_cmd': './check %s --tier thorough' % pid,
        'evidence_file': '/verif/evidence/%s.json' % pid,
        'replay_cmd_template': './check %s --replay {path}' % pid,
        'engine': 'vx+kx',
        'level_claimed': {'category': 'proof', 'text': sp['level_text'], 'design_ref': sp.get('design_ref', 'DESIGN.md section 6 ' + pid)},
        'level_note': sp['level_note'],
        'technique': sp['technique'],
    })
m = {
    'version': 1,
    'setup_cmd': './setup.sh',
    'hooks': {
        'guard': 'rustradio_verif',
        'enable': 'none needed in /repo: vx cuts source text from /repo by span, kx injects #[cfg(kani)] modules into a scratch copy, and the derive users C19 needs live in /verif/hooks/syncx_blocks.rs, which is copied into a scratch copy of /repo as an integration test (tests/verif_syncx.rs) before rustc expands it; /repo carries no hook code',
        'baseline_off_cmd': 'cd /repo && cargo test --workspace --no-fail-fast --offline',
        'source_commits': [],
        'add_only': True,
    },
    'engines': [
        {'name': 'vx', 'path': '/verif/vx', 'serves_properties': sorted(p for p in PROPS.P if any(not u.startswith('kani:') for u in PROPS.P[p]['units'])),
         'kind_free_text': 'contract-based deductive verification: real functions cut mechanically from /repo on every run, contracts spliced from units/*/unit.vx, discharged by Verus/Z3'},
        {'name': 'kx', 'path': '/verif/vx/kx.py', 'serves_properties': sorted(p for p in PROPS.P if any(u.startswith('kani:') for u in PROPS.P[p]['units'])),
         'kind_free_text': 'Kani/CBMC proofs of stream-free finite-domain functions over their full input domain, harnesses injected into a scratch copy of the real crate'},
    ],
    'checks': checks,
    'not_applicable': [{'property_id': k, 'reason': v} for k, v in sorted(NA.NA.items())],
    'notes': 'See DESIGN.md. Exit 0 = every obligation discharged (the proof). Exit 1 = VIOLATION: a Kani counterexample, or obligations that fail in Verus TOGETHER WITH a concrete failing input found on the real code by the bounded stand-in of that unit (units without a stand-in report on the verifier alone, ending no-failing-input-found). Exit 2 + "UNDECIDED" = the machinery could not decide (lost anchor, tool limit, or obligations that fail in the verifier while the stand-in finds no divergence on the real code); never an alarm.',
}
json.dump(m, open(os.path.join(VERIF, 'MANIFEST.json'), 'w'), indent=1)
print('wrote MANIFEST.json with %d checks, %d n/a' % (len(checks), len(NA.NA)))
