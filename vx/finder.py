"""Replay finder: looks for a concrete failing input on the REAL code with the bounded harnesses (bx).  It never
decides a property by itself when the verifier has spoken; it upgrades a failed obligation with a reproducer and
stands in (labelled bounded) where the extraction lost its anchors."""
import vrun
import bx


def props_of(fail):
    lp = vrun.label_props(fail.get('label'))
    return lp if lp else [fail.get('property')]


def find(prop, f, repo, tier):
    unit = f['unit']
    if unit.startswith('kani:'):
        import kx
        return kx.playback(f.get('harness')) if f.get('harness') else None
    if unit not in bx.UNIT_HARNESS:
        return None
    r = bx.run([unit], repo)
    for b in r.fails:
        if prop in props_of(b):
            return {'kind': 'bounded-harness', 'harness': bx.UNIT_HARNESS[unit][0], 'failure': b, 'cmd': r.cmd}
    for b in r.fails:
        return {'kind': 'bounded-harness', 'harness': bx.UNIT_HARNESS[unit][0], 'failure': b, 'cmd': r.cmd,
                'note': 'failing input found for a neighbouring obligation of the same unit'}
    return None


def replay_input(doc, repo):
    inp = doc.get('input') or {}
    if inp.get('kind') == 'bounded-harness':
        unit = doc['unit'] if not doc['unit'].startswith('bounded:') else doc['unit'][8:]
        r = bx.run([unit], repo)
        want = inp['failure'].get('label')
        for b in r.fails:
            print('replay: %s' % b)
        return any(b.get('label') == want for b in r.fails) or bool(r.fails)
    if inp.get('kind') == 'program':
        import expand
        try:
            expand.get(repo, 'hooks')
            return False
        except expand.ExpandError as e:
            print('replay: %s\n%s' % (e, e.output[:1500]))
            return e.derive_only
    if inp.get('kind') == 'kani-concrete-playback':
        import kx
        h = inp['harness']
        g = [k for k, v in __import__('kgroups').G.items() if any(x['name'] == h for x in v['harnesses'])][0]
        r = kx.run_group(g, repo, 'thorough')
        return any(x.get('harness') == h for x in r.failures)
    return False
