#!/usr/bin/env python3
"""benign.py <name> <dir-with-patch.diff,meta.json> <property> [more ...]

The opposite of seed.py: a BEHAVIOUR-PRESERVING change (a refactor written by a sub-agent that was told to keep the
observable behaviour exactly) is applied to a scratch snapshot of /repo's HEAD (never to /repo), the unit tests are run
on it, and the registered checks of the given properties are run against the snapshot.  A VIOLATION (exit 1) is a false
alarm of the machinery (unless the refactor turns out not to be behaviour-preserving after all -- the diff is kept for
review); exit 2 (undecided) is not an alarm but is recorded.  Stores everything under seeded/benign/<name>/."""
import json, os, shutil, subprocess, sys

name, src = sys.argv[1], sys.argv[2]
props = sys.argv[3:]
VERIF = '/verif'
dst = os.path.join(VERIF, 'seeded', 'benign', name)
os.makedirs(dst, exist_ok=True)
for f in ('patch.diff', 'meta.json'):
    if os.path.abspath(os.path.join(src, f)) != os.path.abspath(os.path.join(dst, f)):
        shutil.copy(os.path.join(src, f), os.path.join(dst, f))
S = '/tmp/vxbenign_%s' % name
shutil.rmtree(S, ignore_errors=True)
os.makedirs(S)
subprocess.run('git -C /repo archive HEAD | tar -x -C %s' % S, shell=True, check=True)
res = {}
r = subprocess.run('git init -q . && git apply --whitespace=nowarn %s' % os.path.join(dst, 'patch.diff'), shell=True, cwd=S, capture_output=True, text=True)
if r.returncode != 0:
    res['apply_error'] = (r.stderr + r.stdout)[-1500:]
else:
    env = dict(os.environ, CARGO_NET_OFFLINE='true', CARGO_TARGET_DIR='/verif/build/seed-target')
    t = subprocess.run('cargo test --offline --lib 2>&1 | grep -E "^test result|FAILED" | head -5', shell=True, cwd=S, env=env, capture_output=True, text=True)
    res['suite'] = t.stdout.strip().split('\n')
    checks = {}
    for p in props:
        c = subprocess.run([os.path.join(VERIF, 'check'), p], capture_output=True, text=True,
                           env=dict(os.environ, VERIF_REPO=S, VERIF_NOEVIDENCE='1', VERIF_TAG='_ben_%s_%s' % (name.lower(), p.lower())))
        checks[p] = {'rc': c.returncode, 'lines': [l for l in c.stdout.strip().split('\n') if not l.startswith('KNOWN-FINDING')][:6]}
    res['checks'] = checks
    res['false_alarm'] = any(v['rc'] == 1 for v in checks.values())
    res['undecided'] = any(v['rc'] == 2 for v in checks.values())
shutil.rmtree(S, ignore_errors=True)
meta = json.load(open(os.path.join(dst, 'meta.json')))
if 'first_shot' not in meta and 'checks' in res:
    meta['first_shot'] = {p: v['rc'] for p, v in res['checks'].items()}
meta['verif'] = res
json.dump(meta, open(os.path.join(dst, 'meta.json'), 'w'), indent=1)
print(name, 'false_alarm=%s undecided=%s' % (res.get('false_alarm'), res.get('undecided')), res.get('apply_error', '')[:200])
for p, v in res.get('checks', {}).items():
    print('  ', p, v['rc'], [l[:260] for l in v['lines'][:3]])
