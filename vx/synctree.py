"""Copy /repo's working tree into a scratch build directory so that cargo ALWAYS notices a changed file.

cargo decides freshness by mtime; `rsync -a` preserves mtimes, so restoring a file to older content with an older
mtime (a reverted patch, a copy of another tree) would be taken as 'fresh' and a stale build would be tested.
Files are therefore compared by checksum, times are never copied, and every file that is transferred gets the current
time."""
import os
import subprocess
import time


def sync(repo, dst):
    os.makedirs(dst, exist_ok=True)
    # -rlpgoD = -a without -t: modification times are NOT copied.  With -t rsync also "repairs" the time of a file whose
    # content is already right, i.e. it can move a file's mtime BACK behind the build products made from a different
    # content in between, and cargo then takes those stale products for fresh.  Without -t a transferred file gets the
    # current time and an untouched file keeps the time it has.
    p = subprocess.run(['rsync', '-rlpgoD', '--checksum', '--delete', '--exclude', 'target', '--exclude', '.git',
                        '--out-format=%n', repo.rstrip('/') + '/', dst.rstrip('/') + '/'],
                       capture_output=True, text=True, check=True)
    now = time.time()
    changed = []
    for rel in p.stdout.split('\n'):
        rel = rel.strip()
        if not rel or rel.endswith('/') or rel.startswith('deleting '):
            continue
        f = os.path.join(dst, rel)
        if os.path.isfile(f):
            os.utime(f, (now, now))
            changed.append(rel)
    return changed
