"""Copy /repo's working tree into a scratch build directory so that cargo ALWAYS notices a changed file.

cargo decides freshness by mtime; `rsync -a` preserves mtimes, so restoring a file to older content with an older
mtime (a reverted patch, a copy of another tree) would be taken as 'fresh' and a stale build would be tested.
Files are therefore compared by checksum and every file that is transferred gets the current time."""
import os
import subprocess
import time


def sync(repo, dst):
    os.makedirs(dst, exist_ok=True)
    p = subprocess.run(['rsync', '-a', '--checksum', '--delete', '--exclude', 'target', '--exclude', '.git',
                        '--out-format=%n', repo.rstrip('/') + '/', dst.rstrip('/') + '/'],
                       capture_output=True, text=True, check=True)
    now = time.time()
    changed = []
    for rel in p.stdout.split('\n'):
        rel = rel.strip()
        if not rel or rel.endswith('/') or rel.startswith('deleting '):
            continue
        f = os.path.join(dst, rel)
        if os.path.isfile(f):
            os.utime(f, (now, now))
            changed.append(rel)
    return changed
