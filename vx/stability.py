#!/usr/bin/env python3
"""stability.py [unit ...] -- proof-stability report: verifies each Verus unit under several crate names (Verus / Z3 are
sensitive to names) and prints, per unit, the worst status and the heaviest functions as a fraction of the resource
limit.  Development aid (DESIGN.md section 7): a function above about a third of the limit is split or made opaque."""
import sys, os, glob, concurrent.futures as cf
sys.path.insert(0, os.path.dirname(os.path.abspath(__file__)))
import vrun
CAP = 3_000_000 * vrun.DEFAULT_RLIMIT   # Verus' rlimit unit is about 3e6 Z3 resource units
units = sys.argv[1:] or sorted(os.path.basename(os.path.dirname(p)) for p in glob.glob('/verif/units/*/unit.vx') if '/try/' not in p)
tags = ['', '_confirm', '_s1', '_zq']
def one(u):
    worst = {}
    stat = set()
    for t in tags:
        r = vrun.run_unit(u, os.environ.get('VERIF_REPO', '/repo'), twins=True, tag=t)
        stat.add(r.status + ((' ' + r.reason[:60]) if r.status != 'ok' else ''))
        for f in r.functions:
            n = f['fn'].split('::')[-1]
            if n.endswith('__twin'):
                continue
            worst[n] = max(worst.get(n, 0), f.get('rlimit') or 0)
    top = sorted(worst.items(), key=lambda kv: -kv[1])[:3]
    return u, stat, top
bad = 0
with cf.ThreadPoolExecutor(max_workers=4) as ex:
    for u, stat, top in ex.map(one, units):
        flag = 'OK ' if stat == {'ok'} and (not top or top[0][1] < CAP / 3) else 'LOOK'
        bad += flag != 'OK '
        print('%s %-10s %s  %s' % (flag, u, sorted(stat), ', '.join('%s %.0f%%' % (n, 100.0 * v / CAP) for n, v in top)), flush=True)
sys.exit(1 if bad else 0)
