"""Small Rust tokenizer + item locator used by vx (no crate is built).

Token kinds: 'id', 'num', 'str', 'char', 'life', 'punct', 'comment', 'ws'.
Every token carries (kind, text, start, end) byte offsets into the source
string, so text is always cut verbatim by span.
"""
import re
from dataclasses import dataclass


class LostAnchor(Exception):
    pass


@dataclass
class Tok:
    kind: str
    text: str
    start: int
    end: int


_ID = re.compile(r'[A-Za-z_][A-Za-z0-9_]*')
_NUM = re.compile(r'[0-9][0-9A-Za-z_]*(\.[0-9][0-9A-Za-z_]*)?')
_PUNCT3 = ('<<=', '>>=', '...', '..=')
_PUNCT2 = ('::', '->', '=>', '==', '!=', '<=', '>=', '&&', '||', '+=', '-=', '*=', '/=', '%=',
           '^=', '&=', '|=', '<<', '>>', '..')


def tokenize(src: str, keep_trivia: bool = False):
    toks = []
    i, n = 0, len(src)
    while i < n:
        c = src[i]
        if c.isspace():
            j = i
            while j < n and src[j].isspace():
                j += 1
            if keep_trivia:
                toks.append(Tok('ws', src[i:j], i, j))
            i = j
            continue
        if src.startswith('//', i):
            j = src.find('\n', i)
            if j < 0:
                j = n
            if keep_trivia:
                toks.append(Tok('comment', src[i:j], i, j))
            i = j
            continue
        if src.startswith('/*', i):
            depth, j = 1, i + 2
            while j < n and depth:
                if src.startswith('/*', j):
                    depth += 1
                    j += 2
                elif src.startswith('*/', j):
                    depth -= 1
                    j += 2
                else:
                    j += 1
            if keep_trivia:
                toks.append(Tok('comment', src[i:j], i, j))
            i = j
            continue
        # raw strings / byte strings
        m = re.match(r'(b|c)?r(#*)"', src[i:i + 40])
        if m:
            hashes = m.group(2)
            close = '"' + hashes
            j = src.find(close, i + m.end())
            if j < 0:
                raise ValueError('unterminated raw string at %d' % i)
            j += len(close)
            toks.append(Tok('str', src[i:j], i, j))
            i = j
            continue
        if c == '"' or (c in 'bc' and i + 1 < n and src[i + 1] == '"'):
            j = i + (2 if c != '"' else 1)
            while j < n and src[j] != '"':
                j += 2 if src[j] == '\\' else 1
            j += 1
            toks.append(Tok('str', src[i:j], i, j))
            i = j
            continue
        if c == "'" or (c == 'b' and i + 1 < n and src[i + 1] == "'"):
            k = i + (1 if c == 'b' else 0)
            # char literal or lifetime?
            if src[k + 1] == '\\':
                j = src.find("'", k + 3)
                # handle '\''
                if src[k + 2] == "'":
                    j = k + 3
                j += 1
                toks.append(Tok('char', src[i:j], i, j))
                i = j
                continue
            if k + 2 < n and src[k + 2] == "'":
                j = k + 3
                toks.append(Tok('char', src[i:j], i, j))
                i = j
                continue
            m = _ID.match(src, k + 1)
            if m:
                j = m.end()
                toks.append(Tok('life', src[i:j], i, j))
                i = j
                continue
            # non-ascii char literal
            j = src.find("'", k + 1) + 1
            toks.append(Tok('char', src[i:j], i, j))
            i = j
            continue
        m = _ID.match(src, i)
        if m:
            toks.append(Tok('id', m.group(0), i, m.end()))
            i = m.end()
            continue
        m = _NUM.match(src, i)
        if m:
            # do not swallow `0..5` as a float
            t = m.group(0)
            if '.' in t and src.startswith('..', i + t.index('.')):
                t = t[:t.index('.')]
            toks.append(Tok('num', t, i, i + len(t)))
            i += len(t)
            continue
        for p in _PUNCT3:
            if src.startswith(p, i):
                toks.append(Tok('punct', p, i, i + 3))
                i += 3
                break
        else:
            for p in _PUNCT2:
                if src.startswith(p, i):
                    toks.append(Tok('punct', p, i, i + 2))
                    i += 2
                    break
            else:
                toks.append(Tok('punct', c, i, i + 1))
                i += 1
    return toks


OPEN = {'(': ')', '[': ']', '{': '}'}
CLOSE = {')': '(', ']': '[', '}': '{'}


def match_close(toks, i):
    """toks[i] is an opening bracket; return index of its matching close."""
    depth = 0
    for j in range(i, len(toks)):
        t = toks[j].text
        if toks[j].kind == 'punct':
            if t in OPEN:
                depth += 1
            elif t in CLOSE:
                depth -= 1
                if depth == 0:
                    return j
    raise ValueError('unbalanced bracket at token %d' % i)


def skip_generics(toks, i):
    """toks[i] is '<'; return index after the matching '>' (handles '>>', '->')."""
    depth = 0
    j = i
    while j < len(toks):
        t = toks[j]
        if t.kind == 'punct':
            if t.text == '<':
                depth += 1
            elif t.text == '>':
                depth -= 1
            elif t.text == '>>':
                depth -= 2
            elif t.text in OPEN:
                j = match_close(toks, j)
            if depth <= 0:
                return j + 1
        j += 1
    raise ValueError('unbalanced generics')


@dataclass
class Item:
    kind: str          # struct enum fn const type impl trait mod use static macro
    name: str          # for impl: self type name
    start: int         # byte offset incl. attributes / doc comments
    end: int
    head_start: int    # byte offset of first non-attribute token (after visibility)
    body_open: int     # token index of '{' (or -1)
    body_close: int    # token index of matching '}' (or -1)
    tok_start: int
    tok_end: int       # exclusive
    trait_name: str = ''
    members: list = None


_ITEM_KW = {'struct', 'enum', 'fn', 'const', 'type', 'impl', 'trait', 'mod', 'use', 'static', 'union',
            'macro_rules'}


def parse_items(src, toks, lo, hi):
    """Parse items between token indices [lo, hi). Returns list of Item."""
    items = []
    i = lo
    while i < hi:
        start_tok = i
        # attributes
        while i < hi and toks[i].text == '#':
            j = i + 1
            if toks[j].text == '!':
                j += 1
            j = match_close(toks, j)
            i = j + 1
        if i >= hi:
            break
        # visibility and qualifiers
        j = i
        while j < hi:
            t = toks[j].text
            if t == 'pub':
                j += 1
                if j < hi and toks[j].text == '(':
                    j = match_close(toks, j) + 1
            elif t in ('unsafe', 'async', 'default', 'extern') and toks[j + 1].text != '{':
                j += 1
                if toks[j].kind == 'str':
                    j += 1
            elif t == 'const' and toks[j + 1].text in ('fn', 'unsafe', 'async'):
                j += 1
            else:
                break
        kw = toks[j].text if j < hi else ''
        if kw not in _ITEM_KW:
            # not an item (e.g. stray token / macro invocation): skip to ';' or balanced block
            k = j
            while k < hi and toks[k].text not in (';',) and toks[k].text not in OPEN:
                k += 1
            if k < hi and toks[k].text in OPEN:
                k = match_close(toks, k)
                if k + 1 < hi and toks[k + 1].text == ';':
                    k += 1
            i = k + 1
            continue
        head = j
        name = ''
        trait_name = ''
        k = j + 1
        if kw == 'impl':
            if toks[k].text == '<':
                k = skip_generics(toks, k)
            # path up to 'for' / '{' / 'where'
            first_path = []
            while toks[k].text not in ('for', '{', 'where'):
                if toks[k].text == '<':
                    k = skip_generics(toks, k)
                    continue
                if toks[k].kind == 'id':
                    first_path.append(toks[k].text)
                k += 1
            if toks[k].text == 'for':
                trait_name = first_path[-1] if first_path else ''
                k += 1
                second = []
                while toks[k].text not in ('{', 'where'):
                    if toks[k].text == '<':
                        k = skip_generics(toks, k)
                        continue
                    if toks[k].kind == 'id':
                        second.append(toks[k].text)
                    k += 1
                name = second[-1] if second else ''
            else:
                name = first_path[-1] if first_path else ''
        elif kw == 'macro_rules':
            k = j + 2
            name = toks[k].text
        elif kw == 'use':
            name = ''
        else:
            name = toks[k].text
        # find end: ';' or '{...}' at depth 0 (skipping generics/parens)
        body_open = body_close = -1
        while k < hi:
            t = toks[k].text
            if t == ';':
                end_tok = k
                break
            if t == '{':
                body_open = k
                body_close = match_close(toks, k)
                end_tok = body_close
                break
            if t in ('(', '['):
                k = match_close(toks, k)
            k += 1
        else:
            raise ValueError('item without end near byte %d' % toks[j].start)
        if kw == 'struct' and body_open < 0:
            pass
        # tuple struct `struct X(..);` ends at ';' handled above. `struct X {..}` no ';'
        it = Item(kw, name, toks[start_tok].start, toks[end_tok].end, toks[head].start,
                  body_open, body_close, start_tok, end_tok + 1, trait_name)
        if kw in ('impl', 'trait', 'mod') and body_open >= 0:
            it.members = parse_items(src, toks, body_open + 1, body_close)
        items.append(it)
        i = end_tok + 1
    return items


def leading_doc_start(src, start):
    """Extend `start` backwards over directly preceding `///` comment lines."""
    pos = start
    while True:
        ls = src.rfind('\n', 0, pos - 1 if pos > 0 else 0)
        # line before the one containing pos
        line_start = src.rfind('\n', 0, pos) + 1
        if line_start == 0:
            return pos
        prev_end = line_start - 1
        prev_start = src.rfind('\n', 0, prev_end) + 1
        prev = src[prev_start:prev_end].strip()
        if prev.startswith('///') or prev.startswith('//!'):
            pos = prev_start
            continue
        return line_start if src[line_start:pos].strip() == '' else pos


class Source:
    def __init__(self, path, text):
        self.path = path
        self.text = text
        self.toks = tokenize(text)
        self.items = parse_items(text, self.toks, 0, len(self.toks))

    def line_of(self, off):
        return self.text.count('\n', 0, off) + 1

    def _all(self, items=None, skip_test_mods=True):
        for it in (self.items if items is None else items):
            if it.kind == 'mod' and it.name in ('tests', 'test') and skip_test_mods:
                continue
            yield it
            if it.kind == 'mod' and it.members:
                yield from self._all(it.members)

    def find(self, kind, spec):
        """spec: 'Name' or 'Type::name' or 'Trait@Type::name'. Returns (Item, parent Item|None)."""
        want_trait = None
        owner = None
        name = spec
        if '::' in spec:
            owner, name = spec.rsplit('::', 1)
            if '@' in owner:
                want_trait, owner = owner.split('@', 1)
        found = []
        for it in self._all():
            if owner is None:
                if it.kind == kind and it.name == name:
                    found.append((it, None))
            elif it.kind == 'impl' and it.name == owner and it.members is not None:
                if want_trait is None and it.trait_name and kind == 'fn' and False:
                    continue
                if want_trait is not None and it.trait_name != want_trait:
                    continue
                for m in it.members:
                    if m.kind == kind and m.name == name:
                        found.append((m, it))
        if len(found) != 1:
            raise LostAnchor('%s: %s %s found %d times' % (self.path, kind, spec, len(found)))
        return found[0]

    def cut(self, it):
        """Return (text, first_line) of the item including its attributes and doc comments."""
        return self.text[it.start:it.end], self.line_of(it.start)
