#!/usr/bin/env python3
"""Write units/syncx/unit.vx: the same contract, instantiated for every derive user in hooks/syncx_blocks.rs.

The unit file is committed like any other template; this script only spares typing nine near-identical sections (the
macro generates the same code shape for every arity, and the contract follows the arity the same way)."""
import os

VERIF = os.path.dirname(os.path.dirname(os.path.abspath(__file__)))

# name, inputs [(field, type)], outputs [(field, type)], mode, process_sync results (spec expressions over the input
# names, one per output), tag source input, process_sync receiver
BLOCKS = [
    dict(name='V11', ins=[('a', 'u32')], outs=[('x', 'u32')], mode='sync', ps=None, tagsrc='a', stateful=True),
    dict(name='V12', ins=[('a', 'u8')], outs=[('x', 'u8'), ('y', 'u32')], mode='sync', ps=['!a', 'a as u32'], tagsrc='a'),
    dict(name='V13', ins=[('a', 'u32')], outs=[('x', 'u32'), ('y', 'u32'), ('z', 'u8')], mode='sync',
         ps=['a', '!a', '(a & 0xff) as u8'], tagsrc='a'),
    dict(name='V21', ins=[('a', 'u32'), ('b', 'u8')], outs=[('x', 'u32')], mode='sync', ps=['a ^ (b as u32)'], tagsrc='a'),
    dict(name='V22', ins=[('a', 'u32'), ('b', 'u32')], outs=[('x', 'u32'), ('y', 'u32')], mode='sync', ps=['b', 'a'], tagsrc='a'),
    dict(name='V23', ins=[('a', 'u8'), ('b', 'u32')], outs=[('x', 'u32'), ('y', 'u8'), ('z', 'u32')], mode='sync',
         ps=['b', 'a', 'b ^ (a as u32)'], tagsrc='a'),
    dict(name='V31', ins=[('a', 'u32'), ('b', 'u32'), ('c', 'u32')], outs=[('x', 'u32')], mode='sync',
         ps=['a ^ !b ^ (c & 0xffff)'], tagsrc='a'),
    dict(name='V32', ins=[('a', 'u32'), ('b', 'u8'), ('c', 'u32')], outs=[('x', 'u32'), ('y', 'u8')], mode='sync',
         ps=['a ^ c', '!b'], tagsrc='a'),
    dict(name='V33', ins=[('a', 'u32'), ('b', 'u32'), ('c', 'u32')], outs=[('x', 'u32'), ('y', 'u32'), ('z', 'u32')],
         mode='sync', ps=['c', 'a', 'b'], tagsrc='a'),
    dict(name='V11T', ins=[('a', 'u32')], outs=[('x', 'u32')], mode='sync_tag', ps=['!a'], tagsrc='a'),
    dict(name='V22T', ins=[('a', 'u32'), ('b', 'u8')], outs=[('x', 'u8'), ('y', 'u32')], mode='sync_tag', ps=['b', 'a'],
         tagsrc='b', tagparams={'a': '_a_tag'}),
]

HEAD = '''//@unit syncx props=C19 rules=VIS,ATTR,XPAND,SYNCLOOP,BURST,TAGNEW,WIN,RET
// Unit U-syncx: the code the derive macro GENERATES (rustradio_macros/src/lib.rs), cut from rustc's macro expansion
// (vx/expand.py, `-Zunpretty=expanded`) of derive users of every arity 1..3 x 1..3 (hooks/syncx_blocks.rs, compiled as
// an integration test of a scratch copy of /repo), against the stream contract.  Written by vx/mksyncx.py.
// Per block: the generated work() (steps, clamp, content, tags, wait target), eof(), new(), process_sync_tags.
// Trusted: the iterator semantics spelled out at rule X-SYNCLOOP (DESIGN.md section 4), the shims of syncx_prelude.vx.
use vstd::prelude::*;
use vstd::arithmetic::div_mod::*;
verus! {
type Float = f32;
//@include stream_prelude.vx

//@include syncx_prelude.vx
'''


def section(b):
    nm = b['name']
    lo = nm.lower()
    ins, outs = b['ins'], b['outs']
    L = []
    A = L.append
    A('')
    A('// ============================================================ %s: %d input(s), %d output(s), `%s`'
      % (nm, len(ins), len(outs), b['mode']))
    A('//@cut struct @expanded/hooks %s' % nm)
    args = ', '.join('%s: %s' % (f, t) for f, t in ins)
    call = ', '.join(f for f, _ in ins)
    stateful = b.get('stateful')
    if stateful:
        # V11: x = a ^ k after k has been incremented (wrapping)
        A('spec fn wrap32(i: int) -> u32 { (i % 0x1_0000_0000) as u32 }')
        A('spec fn ps_v11_0(a: u32, k: u32) -> u32 { a ^ wrap32(k + 1) }')
    else:
        for j, e in enumerate(b['ps']):
            A('spec fn ps_%s_%d(%s) -> %s { %s }' % (lo, j, args, outs[j][1], e))
    frame = ' && '.join('final(self).%s@ == old(self).%s@' % (f, f) for f, _ in ins + outs)
    A('impl %s {' % nm)
    tsrc = b['tagsrc']
    tparam = {f: b.get('tagparams', {}).get(f, f + '_tag') for f, _ in ins}
    if b['mode'] == 'sync':
        A('//@cut fn @expanded/hooks %s::process_sync' % nm)
        A('//@ret r')
        A('//@ensures')
        if stateful:
            A('//  [C19.%s.process_sync] r == ps_v11_0(a, old(self).k) && final(self).k == wrap32(old(self).k + 1) && final(self).gain == old(self).gain && final(self).plain == old(self).plain,' % lo)
            A('//  [C19.%s.process_sync-leaves-the-streams-alone] %s,' % (lo, frame))
            A('//@at start')
            A('//  proof { assert(wrap32(old(self).k + 1) == (if old(self).k == u32::MAX { 0u32 } else { (old(self).k + 1) as u32 })) by { if old(self).k == u32::MAX { assert(0x1_0000_0000int % 0x1_0000_0000 == 0) by (compute); } else { lemma_small_mod((old(self).k + 1) as nat, 0x1_0000_0000); } } }')
        elif len(outs) == 1:
            A('//  [C19.%s.process_sync] r == ps_%s_0(%s),' % (lo, lo, call))
        else:
            A('//  [C19.%s.process_sync] %s,' % (lo, ' && '.join('r.%d == ps_%s_%d(%s)' % (j, lo, j, call) for j in range(len(outs)))))
        A('//@end')
    A('//@cut fn @expanded/hooks %s::process_sync_tags' % nm)
    A('//@ret r')
    A('//@ensures')
    if stateful:
        A('//  [C19.%s.generated-tag-processing-calls-process_sync-once] r.0 == ps_v11_0(a, old(self).k) && final(self).k == wrap32(old(self).k + 1) && final(self).gain == old(self).gain && final(self).plain == old(self).plain,' % lo)
    else:
        what = 'generated-tag-processing-calls-process_sync-once' if b['mode'] == 'sync' else 'process_sync_tags'
        A('//  [C19.%s.%s] %s,' % (lo, what, ' && '.join('r.%d == ps_%s_%d(%s)' % (j, lo, j, call) for j in range(len(outs)))))
    if b['mode'] == 'sync':
        A('//  [C19.%s.sync-mode-forwards-the-tags-of-the-first-input] cow_views(r.%d) == views(%s@),' % (lo, len(outs), tparam[tsrc]))
    else:
        A('//  [C19.%s.process_sync_tags-tags] cow_views(r.%d) == views(%s@),' % (lo, len(outs), tparam[tsrc]))
    A('//  [C19.%s.tag-processing-leaves-the-streams-alone] %s,' % (lo, frame))
    A('//@end')

    # ---- work
    n_expr = 'final(self).%s@.consumed.len() - old(self).%s@.consumed.len()' % (ins[0][0], ins[0][0])
    A('//@cut fn @expanded/hooks Block@%s::work' % nm)
    A('//@ret r')
    A('//@attr #[verifier::exec_allows_no_decreases_clause]')
    A('//@attr #[verifier::loop_isolation(false)]')
    A('//@requires')
    A('//  ' + ', '.join(['rs_wf(old(self).%s@)' % f for f, _ in ins] + ['ws_wf(old(self).%s@)' % f for f, _ in outs]) + ',')
    A('//@ensures')
    moved = ' && '.join(['took(old(self).%s@, final(self).%s@, n)' % (f, f) for f, _ in ins]
                        + ['gave(old(self).%s@, final(self).%s@, n)' % (f, f) for f, _ in outs])
    A('//  [C19.%s.one-sample-from-every-input-and-to-every-output-per-step] r is Ok && r->Ok_0 is Again ==> ({ let n = %s; n >= 1 && %s }),' % (lo, n_expr, moved))
    exhausted = ' || '.join(['final(self).%s@.pending.len() == 0' % f for f, _ in ins] + ['final(self).%s@.space == 0' % f for f, _ in outs])
    A('//  [C19.%s.exactly-min-of-shortest-input-and-smallest-space-steps] r is Ok && r->Ok_0 is Again ==> %s,' % (lo, exhausted))
    for j, (o, _) in enumerate(outs):
        if stateful:
            rhs = 'ps_v11_0(final(self).a@.consumed[old(self).a@.consumed.len() + k], wrap32(old(self).k + k))'
        else:
            rhs = 'ps_%s_%d(%s)' % (lo, j, ', '.join('final(self).%s@.consumed[old(self).%s@.consumed.len() + k]' % (f, f) for f, _ in ins))
        A('//  [C19.%s.every-sample-of-output-%s-is-process_sync-of-the-inputs-at-the-same-step] r is Ok && r->Ok_0 is Again ==> (forall|k: int| 0 <= k < %s ==> #[trigger] final(self).%s@.produced[old(self).%s@.produced.len() + k] == %s),'
          % (lo, o, n_expr, o, o, rhs))
    for (o, _) in outs:
        A('//  [C19.%s.tags-travel-with-their-samples-to-output-%s] r is Ok && r->Ok_0 is Again ==> final(self).%s@.tags == old(self).%s@.tags + shift_tags(final(self).%s@.ctags.skip(old(self).%s@.ctags.len() as int), old(self).%s@.produced.len() - old(self).%s@.consumed.len()),'
          % (lo, o, o, o, tsrc, tsrc, o, tsrc))
    waits = ' || '.join(['(s@.id == final(self).%s@.id && final(self).%s@.pending.len() == 0)' % (f, f) for f, _ in ins]
                        + ['(s@.id == final(self).%s@.id && final(self).%s@.space == 0)' % (f, f) for f, _ in outs])
    A('//  [C19.%s.waits-on-a-stream-that-is-empty-or-full] r is Ok ==> (match r->Ok_0 { BlockRet::WaitForStream(s, need) => need == 1 && (%s), BlockRet::Again => true, _ => false }),' % (lo, waits))
    idle = ' && '.join(['idle_r(old(self).%s@, final(self).%s@)' % (f, f) for f, _ in ins] + ['idle_w(old(self).%s@, final(self).%s@)' % (f, f) for f, _ in outs])
    A('//  [C19.%s.nothing-moves-unless-a-step-was-made] !(r is Ok && r->Ok_0 is Again) ==> %s,' % (lo, idle))
    if stateful:
        A('//  [C19.%s.process_sync-runs-once-per-step-in-order] r is Ok && r->Ok_0 is Again ==> final(self).k == wrap32(old(self).k + (%s)),' % (lo, n_expr))
        A('//  [C19.%s.state-untouched-unless-a-step-was-made] !(r is Ok && r->Ok_0 is Again) ==> final(self).k == old(self).k,' % lo)
    # ghosts
    A('//@after let empty_tags')
    A('//  let ghost atv = views(%s_tag@);' % tsrc)
    for f, _ in ins + outs:
        A('//  let ghost s%s = self.%s@;' % (f, f))
    for f, _ in outs:
        A('//  let ghost w%s = %s@;' % (f, f))
    if stateful:
        A('//  let ghost k0 = self.k;')
    A('//  proof {')
    A('//      lemma_abs_sorted(atv, s%s.consumed.len() as int);' % tsrc)
    A('//      assert forall|i: int| 0 <= i < atv.len() implies 0 <= (#[trigger] atv[i]).pos by { assert(atv[i] == %s_tag@[i]@); }' % tsrc)
    A('//      lemma_tv_lt_zero(atv);')
    if stateful:
        A('//      lemma_small_mod(k0 as nat, 0x1_0000_0000);')
    A('//  }')
    framei = ', '.join('self.%s@ == s%s' % (f, f) for f, _ in ins + outs)
    A('//@loop 1')
    A('//  invariant')
    A('//      pos <= __steps, __steps == n,')
    A('//      1 <= n, // [C19.%s.a-call-that-gets-this-far-makes-at-least-one-step]' % lo)
    for f in [f for f, _ in ins + outs]:
        A('//      n <= %s@.data.len(), // [C19.%s.the-step-count-fits-every-window]' % (f, lo))
    A('//      %s,' % ', '.join('%s@.sid == w%s.sid, %s@.data.len() == w%s.data.len()' % (f, f, f, f) for f, _ in outs))
    A('//      %s,' % framei)
    A('//      atv == views(%s_tag@), pos_sorted(atv),' % tsrc)
    # all the fast path needs: it is taken only when the tags that reach the outputs are absent (how the generated code
    # decides that is its business)
    A('//      empty_tags ==> atv.len() == 0, // [C19.%s.the-tag-free-fast-path-is-taken-only-without-tags]' % lo)
    for j, (o, _) in enumerate(outs):
        if stateful:
            rhs = 'ps_v11_0(a@.data[k], wrap32(k0 + k))'
        else:
            rhs = 'ps_%s_%d(%s)' % (lo, j, ', '.join('%s@.data[k]' % f for f, _ in ins))
        A('//      forall|k: int| 0 <= k < pos ==> #[trigger] %s@.data[k] == %s, // [C19.%s.every-sample-of-output-%s-is-process_sync-of-the-inputs-at-the-same-step]' % (o, rhs, lo, o))
    if stateful:
        A('//      self.k == wrap32(k0 + pos),')
    A('//      views(otags@) == tv_lt(atv, pos as int), // [C19.%s.tags-are-collected-position-by-position]' % lo)
    A('//@loop 2')
    A('//  invariant')
    A('//      __i <= __ts@.len(), __ts@.len() == 0, views(otags@) == tv_lt(atv, pos as int),')
    A('//      %s,' % framei)
    A('//@loop 3')
    A('//  invariant')
    A('//      __i <= __ts@.len(), pos < n,')
    A('//      views(otags@) == tv_lt(atv, pos as int) + at_pos(views(__ts@).take(__i as int), pos as int),')
    A('//      %s,' % framei)
    A('//@loopstart 3')
    A('//  let ghost ot0 = views(otags@);')
    A('//@loopend 3')
    A('//  proof {')
    A('//      let e = TagView { pos: pos as int, id: __ts@[__i - 1]@.id };')
    A('//      assert(views(otags@) =~= ot0.push(e));')
    A('//      assert(views(__ts@)[__i - 1] == __ts@[__i - 1]@);')
    A('//      assert(views(__ts@).take(__i as int) =~= views(__ts@).take(__i - 1).push(views(__ts@)[__i - 1]));')
    A('//      assert(at_pos(views(__ts@).take(__i as int), pos as int) =~= at_pos(views(__ts@).take(__i - 1), pos as int).push(e));')
    A('//      assert(views(otags@) =~= tv_lt(atv, pos as int) + at_pos(views(__ts@).take(__i as int), pos as int));')
    A('//  }')
    A('//@after let __ts#1')
    A('//  proof { assert(views(__ts@).len() == __ts@.len()); assert(cow_views(ts).len() == 0); }')
    A('//@after while __i#1')
    A('//  proof {')
    A('//      if atv.len() == 0 { assert(tv_eq(atv, pos as int) =~= Seq::<TagView>::empty()); }')
    A('//      assert(tv_eq(atv, pos as int).len() == 0);')
    A('//      assert(tv_lt(atv, pos as int) + tv_eq(atv, pos as int) =~= tv_lt(atv, pos as int));')
    A('//      assert(views(otags@) == tv_lt(atv, pos as int) + tv_eq(atv, pos as int));')
    A('//  }')
    A('//@after while __i#2')
    A('//  proof {')
    A('//      assert(views(__ts@).take(__ts@.len() as int) =~= views(__ts@));')
    A('//      lemma_at_pos_back(atv, pos as int);')
    A('//      assert(views(otags@) == tv_lt(atv, pos as int) + tv_eq(atv, pos as int));')
    A('//  }')
    A('//@before pos += 1')
    A('//  proof {')
    A('//      lemma_tv_step(atv, pos as int);')
    A('//      assert(views(otags@) == tv_lt(atv, pos + 1));')
    if stateful:
        A('//      lemma_add_mod_noop(k0 + pos, 1, 0x1_0000_0000);')
        A('//      lemma_small_mod(1, 0x1_0000_0000);')
        A('//      assert(self.k == wrap32(k0 + pos + 1));')
    A('//  }')
    A('//@before self.%s.consume' % ins[0][0])
    A('//  proof {')
    A('//      lemma_tv_lt_in(atv, n as int);')
    A('//      assert forall|i: int| 0 <= i < otags@.len() implies 0 <= (#[trigger] otags@[i])@.pos < n by { assert(otags@[i]@ == views(otags@)[i]); }')
    for f, _ in outs:
        A('//      lemma_sync_tags_moved(atv, s%s.consumed.len() as int, s%s.produced.len() as int, n as int);' % (tsrc, f))
    A('//  }')
    A('//@end')
    # ---- eof
    A('//@cut fn @expanded/hooks BlockEOF@%s::eof' % nm)
    A('//@ret r')
    A('//@ensures')
    # the property states one direction only ("true ONLY when ..."); an eof() that is never true stalls a graph, which is
    # C04 / C05 material, not C19
    A('//  [C19.%s.end-of-input-only-when-every-input-has-ended-and-is-drained] r ==> (%s),' % (lo, ' && '.join('old(self).%s.ended()' % f for f, _ in ins)))
    A('//@end')
    # ---- new
    A('//@cut fn @expanded/hooks %s::new' % nm)
    A('//@ret r')
    A('//@ensures')
    A('//  [C19.%s.new-wires-the-inputs-it-was-given] %s,' % (lo, ' && '.join('r.0.%s@ == %s@' % (f, f) for f, _ in ins)))
    A('//  [C19.%s.new-returns-the-read-ends-in-declaration-order] %s,' % (lo, ' && '.join('r.0.%s@.id == r.%d@.id' % (f, j + 1) for j, (f, _) in enumerate(outs))))
    A('//  [C19.%s.new-streams-are-fresh] %s,' % (lo, ' && '.join('ws_wf(r.0.%s@) && rs_wf(r.%d@) && r.0.%s@.produced.len() == 0 && r.%d@.pending.len() == 0' % (f, j + 1, f, j + 1) for j, (f, _) in enumerate(outs))))
    if stateful:
        A('//  [C19.%s.new-defaults-and-converts-the-other-fields] r.0.k == spec_default::<u32>() && r.0.gain == gain.into_spec() && r.0.plain == plain,' % lo)
    A('//@end')
    A('}')
    return L


VNEW = '''
// ============================================================ VNew: generated new() with a non-copy output
//@cut struct @expanded/hooks VNew
impl VNew {
//@cut fn @expanded/hooks VNew::new
//@ret r
//@ensures
//  [C19.vnew.new-wires-the-inputs-it-was-given] r.0.a@ == a@ && r.0.b@ == b@,
//  [C19.vnew.new-returns-the-read-ends-in-declaration-order] r.0.x@.id == r.1@.id && r.0.p.id() == r.2.id() && r.0.y@.id == r.3@.id,
//  [C19.vnew.new-defaults-and-converts-the-other-fields] r.0.seen == spec_default::<u64>() && r.0.name == name.into_spec() && r.0.limit == limit,
//@end
}
'''


def main():
    out = HEAD.split('\n')
    for b in BLOCKS:
        out += section(b)
    out += VNEW.split('\n')
    out += ['} // verus!', 'fn main() {}', '']
    p = os.path.join(VERIF, 'units', 'syncx', 'unit.vx')
    open(p, 'w').write('\n'.join(out))
    print('wrote', p, len(out), 'lines')


if __name__ == '__main__':
    main()
