"""Catalogue of extraction rewrite rules (DESIGN.md section 4).  Every rule is local
and syntactic; every application is logged into the evidence file."""
from rewrite import Rule

R = {}
_CMP = (('<', 'lt'), ('<=', 'le'), ('>', 'gt'), ('>=', 'ge'))


def add(group, *rules):
    R.setdefault(group, []).extend(rules)


# X-VIS: visibility has no run-time meaning; all items live in one module.
add('VIS',
    Rule('X-VIS', 'pub($a:a)', ''),
    Rule('X-VIS', 'pub', ''))

# X-ATTR: attributes / derives (the derive macro's generated code is NOT verified).
add('ATTR',
    Rule('X-ATTR', '#[derive($a:a)]', ''),
    Rule('X-ATTR', '#[must_use]', ''),
    Rule('X-ATTR', '#[allow($a:a)]', ''),
    Rule('X-ATTR', '#[rustradio($a:a)]', ''),
    Rule('X-ATTR', '#[inline]', ''),
    Rule('X-ATTR', '#[cfg_attr($a:a)]', ''))

# X-LOG: log statements have no effect on state.
add('LOG', *[Rule('X-LOG', '%s!($a:a);' % m, '', stmt_start=True)
             for m in ('trace', 'debug', 'info', 'warn', 'error', 'eprintln', 'println')])

# X-DBG: release semantics; a property must not depend on debug assertions.
add('DBG', *[Rule('X-DBG', '%s!($a:a);' % m, '', stmt_start=True)
             for m in ('debug_assert', 'debug_assert_eq', 'debug_assert_ne')])

# X-ASSERT: a panic is abnormal termination; refuse() has `ensures false`.
add('ASSERT',
    Rule('X-ASSERT', 'assert!($c:e, $rest:a);', 'if !($c) { refuse(); }', stmt_start=True),
    Rule('X-ASSERT', 'assert!($c:e $_:c);', 'if !($c) { refuse(); }', stmt_start=True),
    Rule('X-ASSERT', 'assert_eq!($a:e, $b:e $rest:a);', 'if !(($a) == ($b)) { refuse(); }', stmt_start=True),
    Rule('X-ASSERT', 'assert_ne!($a:e, $b:e $rest:a);', 'if !(($a) != ($b)) { refuse(); }', stmt_start=True),
    Rule('X-ASSERT', 'panic!($a:a);', 'refuse();', stmt_start=True),
    Rule('X-ASSERT', 'panic!($a:a)', 'refuse_val()'))

# X-MIN
add('MIN',
    Rule('X-MIN', 'std::cmp::min($a:e, $b:e)', 'min_usize($a, $b)'),
    Rule('X-MIN', 'std::cmp::max($a:e, $b:e)', 'max_usize($a, $b)'))

# X-LOCK (circular_buffer.rs): the verified object is the critical section.
add('LOCK',
    Rule('X-LOCK', 'let (lock, cv) = &*self.state;', '', stmt_start=True),
    Rule('X-LOCK', 'let mut s = lock.lock().unwrap();', 'let s = &mut self.state;', stmt_start=True),
    Rule('X-LOCK', 'let s = self.state.0.lock().unwrap();', 'let s = &self.state;', stmt_start=True),
    Rule('X-LOCK', 'self.state.0.lock().unwrap()', 'self.state'),
    Rule('X-LOCK', 'cv.notify_all();', '', stmt_start=True),
    Rule('X-LOCK', 'drop(s);', '', stmt_start=True),
    Rule('X-LOCK', 'Arc<(Mutex<BufferState>, Condvar)>', 'BufferState'),
    Rule('X-LOCK', 'Arc::new((Mutex::new($e:e), Condvar::new() $_:c))', '$e'))

# X-BND / X-TAGMAP (circular_buffer.rs): BTreeMap<TagPos, Vec<Tag>> -> TagMap shim.
add('TAGMAP',
    Rule('X-BND', 'use std::ops::Bound::{Excluded, Included};', '', stmt_start=True),
    Rule('X-TAGMAP', 'BTreeMap<TagPos, Vec<Tag>>', 'TagMap'),
    Rule('X-TAGMAP', 'BTreeMap::new()', 'TagMap::new()'),
    Rule('X-TAGMAP', '$m:p.range(($lo:e, $hi:e)).map(|(k, _)| *k).collect()', '$m.range_keys($lo, $hi)'),
    Rule('X-TAGMAP', '$t:i.extend($m:p.range(($lo:e, $hi:e)).map(|(k, _)| *k) $_:c)',
         '$m.range_keys_extend(&mut $t, $lo, $hi)'),
    Rule('X-TAGMAP', '$m:p.entry($p:e).or_default().push($t:e)', '$m.push_at($p, $t)'),
    Rule('X-BND', 'Included($a:e)', 'Bnd::Included($a)'),
    Rule('X-BND', 'Excluded($a:e)', 'Bnd::Excluded($a)'),
    Rule('X-TAGMAP', 'for ($n:i, $ts:i) in &$m:p $body:b',
         '{ let mut __i: usize = 0; while __i < $m.nkeys() { let ($n, $ts) = $m.entry_at(__i); __i += 1; $body } }'),
    Rule('X-TAGMAP', 'Vec::with_capacity($m:p.len())', 'Vec::new()'))

# X-TAGNEW: Tag::new(P, t.key(), t.val().clone()) -> t.with_pos(P)
add('TAGNEW',
    Rule('X-TAGNEW', 'Tag::new($p:e, $t:i.key(), $u:i.val().clone() $_:c)', '$t.with_pos($p)'))

# X-SORT
add('SORT',
    Rule('X-SORT', '$v:i.sort_by_key(|a| a.pos());', 'sort_tags_by_pos(&mut $v);', stmt_start=True),
    # an UNSTABLE sort promises less: sorted and a permutation, but not the order of equal keys
    Rule('X-SORT', '$v:i.sort_unstable_by_key(|a| a.pos());', 'sort_tags_by_pos_unstable(&mut $v);', stmt_start=True))

# X-FOR: `for x in v` over a Vec / slice -> indexed while loop (Verus: no `continue` in `for`,
# no invariants over std iterators).
add('FORVAL',
    Rule('X-FOR', 'for $x:i in $v:i $body:b',
         '{ let mut __j: usize = 0; while __j < $v.len() { let $x = $v[__j]; __j += 1; $body } }'))
add('FORREF',
    Rule('X-FOR', 'for $x:i in $v:i $body:b',
         '{ let mut __j: usize = 0; while __j < $v.len() { let $x = &$v[__j]; __j += 1; $body } }'))

# X-DEFAULT
add('DEFAULT', Rule('X-DEFAULT', 'T::default()', 'default_of::<T>()'))

# X-SIZEOF: std::mem::size_of::<T>() is supported by vstd directly (no rule).

# X-ERR: error values are opaque (only Ok/Err matters to the contracts).
add('ERR', Rule('X-ERR', 'Error::msg($a:a)', 'Error::msg_opaque()'))


# X-WIN: `W.consume(n)` / `W.produce(n, ts)` act on the stream through an Arc inside the window; a Verus
# postcondition can only speak about a parameter, so the stream the window came from is named explicitly.
add('WIN', Rule('X-WIN', '__placeholder_never_matches__', ''))


def win_rules(text):
    from rtok import tokenize
    toks = [t.text for t in tokenize(text)]
    bind = {}
    n = len(toks)
    for i in range(n):
        if toks[i] != 'let':
            continue
        j = i + 1
        names = []
        if toks[j] == '(':
            # let (W, TS) = self.F.read_buf()?
            if toks[j + 1] == 'mut':
                j += 1
            names = [toks[j + 1]]
            while toks[j] != ')':
                j += 1
            j += 1
        else:
            if toks[j] == 'mut':
                j += 1
            names = [toks[j]]
            j += 1
        if toks[j:j + 4] == ['=', 'self', '.', toks[j + 3]] and toks[j + 4] == '.' and toks[j + 5] in ('read_buf', 'write_buf'):
            f = toks[j + 3]
            w = names[0]
            if w in bind and bind[w] != f:
                raise ValueError('window %s is bound to two streams (%s, %s)' % (w, bind[w], f))
            bind[w] = f
    out = []
    for w, f in bind.items():
        out.append(Rule('X-WIN', '%s.consume($n:e)' % w, 'self.%s.consume(%s, $n)' % (f, w)))
        out.append(Rule('X-WIN', '%s.produce($n:e, $t:e)' % w, 'self.%s.produce(%s, $n, $t)' % (f, w)))
    return out


# X-COPY: `&mut [T]` returned from a method and then indexed is outside the installed Verus.
add('COPY',
    Rule('X-COPY', '$o:i.slice()[..$k:e].copy_from_slice(&$i:i.slice()[..$k2:e])', '$o.copy_prefix_from(&$i, $k)'),
    Rule('X-COPY', '$o:i.slice()[..$k:e].fill($v:e)', '$o.fill_prefix($k, $v)'),
    Rule('X-COPY', '$o:i.slice().fill($v:e)', '$o.fill_all($v)'),
    Rule('X-COPY', '$o:i.slice()[$e:e] = $v:e;', '$o.set($e, $v);'))

# X-RET: no `dyn` in Verus; the id identifies the field.
add('RET', Rule('X-RET', 'BlockRet::WaitForStream(&self.$f:i, $n:e,)', 'BlockRet::WaitForStream(self.$f.wait_id(), $n)'),
    Rule('X-RET', 'BlockRet::WaitForStream(&self.$f:i, $n:e)', 'BlockRet::WaitForStream(self.$f.wait_id(), $n)'))

# X-TAGFILTER: iterator adapters are outside Verus.
_CMP = (('<', 'lt'), ('<=', 'le'), ('>', 'gt'), ('>=', 'ge'))
add('TAGFILTER', *[Rule('X-TAGFILTER', '$ts:i.into_iter().filter(|t| t.pos() %s $n:e).collect()' % op,
                        'filter_tags_before($ts, $n)' if nm == 'lt' else 'filter_tags_%s($ts, $n)' % nm) for op, nm in _CMP])

# X-SUBSLICE: Vec indexed by a range
add('SUBSLICE', Rule('X-SUBSLICE', '&$v:p[$a:e..($b:e)]', 'subslice(&$v, $a, $b)'),
    Rule('X-SUBSLICE', '&$v:p[$a:e..$b:e]', 'subslice(&$v, $a, $b)'))

# X-SLICEPREFIX: `&W.slice()[..n]`
add('SLICEPREFIX', Rule('X-SLICEPREFIX', '&$w:i.slice()[..$n:e]', 'slice_prefix($w.slice(), $n)'))

# X-EXTEND2: `v.extend([a, b])` -> two pushes (array IntoIterator is outside vstd)
add('EXTEND2', Rule('X-EXTEND2', '$t:i.extend([$a:e, $b:e $_:c]);', '$t.push($a); $t.push($b);', stmt_start=True))

# X-CONSTSTR: inside verus! a const is lowered to a function, which needs the elided lifetime spelled out
add('CONSTSTR', Rule('X-CONSTSTR', 'const $n:i: &str', "const $n: &'static str"))

# X-FIR: FirFilter::work -- the FIR kernel call over sub-slices of the two windows, and the two tag closures
add('FIR',
    Rule('X-FIR', '$f:p.filter_n_inplace(&$i:i.slice()[..$a:e], $d:e, &mut $o:i.slice()[..$b:e])',
         'fir_filter_n_inplace(&$f, &$i, $a, $d, &mut $o, $b)'),
    *[Rule('X-FIR', '$ts:i.retain(|t| t.pos() %s $n:e);' % op,
           'retain_tags_before(&mut $ts, $n);' if nm == 'lt' else 'retain_tags_%s(&mut $ts, $n);' % nm, stmt_start=True) for op, nm in _CMP],
    Rule('X-FIR', '$ts:i.iter_mut().for_each(|t| t.set_pos(t.pos() / $d:e));', 'div_tag_pos(&mut $ts, $d);', stmt_start=True))

# X-PATH (unit fsink): path generics and the std::fs names
add('PATH',
    Rule('X-PATH', 'new<P: AsRef<std::path::Path>>', 'new'),
    Rule('X-PATH', 'filename: P', 'filename: &PathArg'),
    Rule('X-PATH', 'std::fs::File::options()', 'File::options()'),
    Rule('X-PATH', 'std::fs::File::create($p:e)', 'File::create($p)'),
    Rule('X-PATH', 'BufWriter<std::fs::File>', 'BufWriter'))

# X-ITER: `'outer: for s in W.iter() { .. }` over a read window -> indexed while loop
add('ITER',
    Rule('X-ITER', "'outer: for $s:i in $w:i.iter() $body:b",
         "{ let mut __k: usize = 0; 'outer: while __k < $w.len() { let $s = $w.get_ref(__k); __k += 1; $body } }"),
    Rule('X-ITER', "for $s:i in $w:i.iter() $body:b",
         "{ let mut __k: usize = 0; while __k < $w.len() { let $s = $w.get_ref(__k); __k += 1; $body } }"))

# X-HDLC (unit hdlc): iterator / slice idioms of hdlc_deframer.rs
add('HDLC',
    Rule('X-HDLC', '(0..$b:i.len()).step_by(8).map(|i| bits2byte(&$c:i[i..i + 8])).collect()', 'bits_to_bytes(&$b)'),
    Rule('X-HDLC', 'u16::from_le_bytes($v:i[$at:e..].try_into()?)', 'le16_at(&$v, $at)?'),
    Rule('X-HDLC', '&$v:i[..$e:e]', 'subslice(&$v, 0, $e)'),
    Rule('X-HDLC', '&$v:i[..]', '$v.as_slice()'),
    Rule('X-HDLC', '$d:i.to_vec()', 'slice_to_vec($d)'),
    Rule('X-ITER', 'for $s:i in $w:i.iter().copied() $body:b',
         '{ let mut __k: usize = 0; while __k < $w.len() { let $s = *$w.get_ref(__k); __k += 1; $body } }'))

# X-SER (unit fsink): the serialisation closure and the Sample trait statics
add('SER',
    Rule('X-SER', '$w:i.iter().for_each(|s: &T| { $v:i.extend(&s.serialize()); });', 'serialize_into(&$w, &mut $v);', stmt_start=True),
    Rule('X-SER', 'T::size()', 'sample_size::<T>()'),
    Rule('X-SER', '$s:i.serialize()', 'serialize_one(&$s)'))

# X-FSRC (unit fsrc): reader / parse idioms of file_source.rs
add('FSRC',
    Rule('X-FSRC', 'std::path::PathBuf', 'PathBufShim'),
    Rule('X-FSRC', 'BufReader<std::fs::File>', 'FileReader'),
    Rule('X-FSRC', 'vec![0; $n:e]', 'zero_bytes($n)'),
    Rule('X-FSRC', '$f:p.read(&mut $b:i[..])', '$f.read_into(&mut $b)'),
    Rule('X-FSRC', '$f:p.seek(std::io::SeekFrom::Start(0))', '$f.rewind()'),
    Rule('X-FSRC', '$o:i.fill_from_iter($b:i.chunks_exact($ss:e).map(|d| T::parse(d).unwrap()) $_:c)', 'fill_from_parsed_chunks::<T>(&mut $o, &$b, $ss)'),
    Rule('X-FSRC', '$b:p.chunks_exact($ss:e).map(|d| T::parse(d)).collect::<Result<Vec<_>>>()', 'parse_chunks::<T>(&$b, $ss)'),
    Rule('X-FSRC', '$b:p.extend(&$s:i[..$n:e]);', 'extend_prefix(&mut $b, &$s, $n);', stmt_start=True),
    Rule('X-FSRC', '$b:p.drain(0..($k:e));', 'drain_prefix(&mut $b, $k);', stmt_start=True))

# X-TCP (unit tcp): socket / parse idioms of tcp_source.rs
add('TCP',
    Rule('X-TCP', 'std::net::TcpStream', 'FileReader'),
    Rule('X-TCP', 'T::parse(&$b:p[$a:e..$e:e])', 'parse_range::<T>(&$b, $a, $e)'),
    Rule('X-TCP', 'T::parse(&$b:p)', 'parse_vec::<T>(&$b)'),
    Rule('X-TCP', '$b:p.extend(&$s:i[$a:e..$e:e]);', 'extend_range(&mut $b, &$s, $a, $e);', stmt_start=True),
    Rule('X-TCP', 'for $p:i in ($a:e..($b:e)).step_by($s:e) $body:b', '{ let mut $p = $a; while $p < $b { $body $p += $s; } }'))

# X-AU (unit au): iterator / conversion idioms of au.rs
add('AU',
    Rule('X-AU', '$w:i.iter().take($n:e).copied().collect::<Vec<u8>>().chunks_exact(2).map(|chunk| $body:b).collect::<Vec<Float>>()', 'pcm16_decode(&$w, $n)'),
    Rule('X-AU', '$w:i.iter().take($n:e).copied().collect::<Vec<_>>()', 'take_bytes(&$w, $n)'),
    Rule('X-AU', 'u32::from_be_bytes($v:i[$a:e..$b:e].try_into().unwrap())', 'be32_range(&$v, $a, $b)'),
    Rule('X-AU', 'u32::from_be_bytes($v:i.try_into().unwrap())', 'be32_vec($v)'),
    Rule('X-AU', 'Encoding::Pcm16 as u32', 'pcm16_code()'))

# X-RTL (unit rtlsdr)
add('RTL',
    Rule('X-RTL', '$o:i.fill_from_iter($w:i.slice().chunks_exact(2).map($f:e).map($g:e) $_:c)', 'fill_from_iq_pairs(&mut $o, &$w)'))

# X-CORR (unit kernels): correlator idioms
add('CORR',
    Rule('X-CORR', '$s:p.iter().zip(&$c:p).filter(|(a, b)| a != b).count()', 'count_diffs(&$s, &$c)'),
    Rule('X-CORR', '$t:i.to_vec()', 'tags_to_vec($t)'),
    Rule('X-CORR', 'Tag::new(0, self.tag.clone(), TagValue::U64($d:i.try_into().expect($m:e) $_:c) $_2:c)', 'corr_tag(&self.tag, $d)'))

# X-S2P (unit s2pdu)
add('S2P',
    Rule('X-S2P', '$t:i.iter().map(|t| ((t.pos(), t.key()), t)).collect::<HashMap<(TagPos, &str), &Tag>>()', 'index_tags(&$t)'),
    Rule('X-S2P', 'for ($i:i, $s:i) in $w:i.iter().enumerate() $body:b',
         '{ let mut $i: usize = 0; while $i < $w.len() { let $s = $w.get_ref($i); $body $i += 1; } }'))
add('S2PSIG',
    Rule('X-S2P', '&HashMap<(TagPos, &str), &Tag>', '&TagIndex'),
    Rule('X-S2P', 'key: &str', 'key: &String'))

# X-BURST (unit kernels): burst tagger idioms
add('BURST',
    Rule('X-BURST', "Cow<'a, [Tag]>", "CowTags<'a>"),
    Rule('X-BURST', 'Cow::Owned($e:e)', 'CowTags::Owned($e)'),
    Rule('X-BURST', 'Cow::Borrowed($e:e)', 'CowTags::Borrowed($e)'),
    Rule('X-BURST', '$a:i > self.threshold', 'f32_gt($a, self.threshold)'),
    Rule('X-BURST', 'Tag::new(0, self.tag.clone(), TagValue::Bool($b:i))', 'bool_tag(&self.tag, $b)'))

# X-HILB (unit hilbert)
add('HILB',
    Rule('X-HILB', 'let i = ii.slice();', 'let i = ii.slice();', stmt_start=True),
    Rule('X-HILB', 'let o = oo.slice();', '', stmt_start=True),
    Rule('X-HILB', 'o.is_empty()', 'oo.is_empty()'),
    Rule('X-HILB', 'o.len()', 'oo.len()'),
    Rule('X-HILB', 'BlockRet::WaitForFunc(Box::new($c:e))', 'BlockRet::Pending'),
    Rule('X-HILB', 'iv.extend(&self.history);', 'extend_vec(&mut iv, &self.history);', stmt_start=True),
    Rule('X-HILB', 'iv.extend(i.iter().take($k:e).copied());', 'extend_take(&mut iv, i, $k);', stmt_start=True),
    Rule('X-HILB', 'iv.extend(i);', 'extend_take(&mut iv, i, i.len());', stmt_start=True),
    Rule('X-HILB', 'self.history.clone_from_slice(&iv[$a:e..]);', '{ let __hl = self.history.len(); history_from(&mut self.history, __hl, &iv, $a, iv.len()); }', stmt_start=True),
    Rule('X-HILB', 'use rayon::prelude::*;', '', stmt_start=True),
    Rule('X-HILB', 'o.par_iter_mut().take($n:e).enumerate().for_each($c:e);', 'hilbert_kernel(&mut oo, &iv, $n, self.ntaps, &self.filter);', stmt_start=True),
    Rule('X-HILB', 'self.history[..self.ntaps].clone_from_slice(&iv[$a:e..$b:e]);', 'history_from(&mut self.history, self.ntaps, &iv, $a, $b);', stmt_start=True),
    Rule('X-HILB', '$ts:i.retain(|t| t.pos() < $n:e);', 'retain_tags_before(&mut $ts, $n);', stmt_start=True))

# X-PANIC: where C15 is the question, an assert!/expect is an OBLIGATION (the site must be unreachable), not a refusal
add('PANIC',
    Rule('X-PANIC', 'assert!($c:e, $rest:a);', 'if !($c) { reach_panic(); }', stmt_start=True),
    Rule('X-PANIC', 'assert!($c:e $_:c);', 'if !($c) { reach_panic(); }', stmt_start=True),
    Rule('X-PANIC', 'assert_eq!($a:e, $b:e $rest:a);', 'if !(($a) == ($b)) { reach_panic(); }', stmt_start=True),
    Rule('X-PANIC', 'assert_ne!($a:e, $b:e $rest:a);', 'if ($a) == ($b) { reach_panic(); }', stmt_start=True))

# X-SIGMF (unit sigmf)
add('SIGMF',
    Rule('X-SIGMF', 'std::fs::File', 'SigFile'),
    Rule('X-SIGMF', '$f:p.seek(std::io::SeekFrom::Start($p:e))', '$f.seek_to($p)'),
    Rule('X-SIGMF', '$f:p.read(&mut $b:i)', '$f.read_into(&mut $b)'),
    Rule('X-SIGMF', '$o:i.fill_from_iter($b:p.chunks_exact($ss:e).take($k:e).map(|d| T::parse(d).expect($m:e)) $_:c);', 'fill_from_parsed_chunks_take::<T>(&mut $o, &$b, $ss, $k);', stmt_start=True),
    Rule('X-SIGMF', '$b:p.drain(..($k:e));', 'drain_prefix(&mut $b, $k);', stmt_start=True))

# X-WPCR (unit wpcr): iterator pipelines / float expressions of wpcr.rs
add('WPCR',
    Rule('X-WPCR', '$d:i.iter().map(|x| x.norm_sqr().sqrt()).collect::<Vec<_>>()', 'magnitudes($d)'),
    Rule('X-WPCR', 'mag.iter().take($n:e).skip($k:e).max_by($c:a).unwrap() * 0.8', 'scale08(max_of_range(&mag, $k, $n).unwrap())'),
    Rule('X-WPCR', 'mag.iter().take($n:e).skip($k:e).max_by($c:a)? * 0.8', 'scale08(max_of_range(&mag, $k, $n)?)'),
    Rule('X-WPCR', 'for (n, (v, nxt)) in mag.iter().zip(mag.iter().skip(1)).enumerate().skip($k:e) $body:b',
         '{ let mut n: usize = $k; while n + 1 < mag.len() { let v = &mag[n]; let nxt = &mag[n + 1]; $body n += 1; } }'),
    Rule('X-WPCR', 'v.iter().sum::<Float>() / v.len() as Float', 'mean_of(&v)'),
    Rule('X-WPCR', 'mean.is_nan()', 'is_nan(mean)'),
    Rule('X-WPCR', 'v.iter().partition(|&t| *t > mean)', 'partition_gt(&v, mean)'),
    Rule('X-WPCR', '$a:i.sort_by(|a, b| a.partial_cmp(b).unwrap());', 'sort_floats(&mut $a);', stmt_start=True),
    Rule('X-WPCR', 'low + (high - low) / 2.0', 'midpoint(low, high)'),
    Rule('X-WPCR', 'v.iter().map(|t| t - offset).collect::<Vec<_>>()', 'shifted(&v, offset)'),
    Rule('X-WPCR', '*$a:i > *$b:i', 'f_gt(*$a, *$b)'),
    Rule('X-WPCR', '*$a:i > $b:i', 'f_gt(*$a, $b)'))

# X-FFTF (unit fftfilter): Vec / iterator idioms of fft_filter.rs
add('FFTF',
    Rule('X-FFTF', 'self.buf_tags.extend(tags.iter().filter(|t| t.pos() < $n:e).map(|t| Tag::new(t.pos() + $b:e, t.key(), t.val().clone())) $_:c);',
         'extend_shifted_tags(&mut self.buf_tags, &tags, $n, $b);', stmt_start=True),
    Rule('X-FFTF', 'self.buf_tags.extend(tags.iter().filter(|t| t.pos() < $n:e).map(|t| Tag::new(t.pos(), t.key(), t.val().clone())) $_:c);',
         'extend_shifted_tags(&mut self.buf_tags, &tags, $n, 0);', stmt_start=True),
    Rule('X-FFTF', 'self.buf.extend(input.iter().take($n:e).copied());', 'extend_from_window(&mut self.buf, &input, $n);', stmt_start=True),
    Rule('X-FFTF', 'self.buf.resize($n:e, Complex::default());', 'resize_zero(&mut self.buf, $n);', stmt_start=True),
    Rule('X-FFTF', 'self.engine.run(&mut self.buf);', 'engine_run(&mut self.engine, &mut self.buf);', stmt_start=True),
    Rule('X-FFTF', 'for ($i:i, $t:i) in self.tail.iter().enumerate() $body:b',
         '{ let mut $i: usize = 0; while $i < self.tail.len() { let $t = self.tail[$i]; $body $i += 1; } }'),
    Rule('X-FFTF', 'for $i:i in 0..self.tail.len() $body:b', '{ let mut $i: usize = 0; while $i < self.tail.len() { $body $i += 1; } }'),
    Rule('X-FFTF', 'self.buf[$i:e] += $t:i;', '{ let __x = cadd(self.buf[$i], $t); self.buf[$i] = __x; }', stmt_start=True),
    Rule('X-FFTF', '&self.buf[..$n:e]', 'vec_prefix(&self.buf, $n)'))

# X-AUE (unit auenc): AuEncode::work idioms (local alias `type S = i16;`)
add('AUE',
    Rule('X-AUE', 'type S = i16;', '', stmt_start=True),
    Rule('X-AUE', 'S::MAX as Float', 'i16_max_as_float()'),
    Rule('X-AUE', 'std::mem::size_of::<S>()', 'size_of_i16()'),
    Rule('X-AUE', '($w:i.slice()[$j:e] * scale) as S', 'quant16(*$w.get_ref($j), scale)'),
    Rule('X-AUE', '$o:i.slice()[$a:e..$b:e].clone_from_slice(&$v:i.to_be_bytes());', '$o.put_be16($a, $b, $v);', stmt_start=True),
    Rule('X-AUE', 'self.header.as_mut().unwrap().drain(0..$n:e);', 'header_drain(&mut self.header, $n);', stmt_start=True),
    Rule('X-AUE', 'self.header.as_ref().unwrap().is_empty()', 'header_is_empty(&self.header)'),
    Rule('X-AUE', '&h[..$n:e]', 'vec_prefix_u8(h, $n)'),
    Rule('X-AUE', 'for $i:i in 0..$n:i $body:b', '{ let mut $i: usize = 0; while $i < $n { $body $i += 1; } }'))

# X-SS (unit symsync): the float expressions of symbol_sync.rs, statement by statement (applied before X-ZC)
add('SS',
    Rule('X-SS', 'Box<dyn Ted>', 'TedBox'),
    Rule('X-SS', 'Box<dyn ClampedFilter<Float>>', 'CfBox'),
    Rule('X-SS', 'let oslice = o.slice();', '', stmt_start=True),
    Rule('X-SS', 'oslice[$i:e] = $v:e;', 'o.set($i, $v);', stmt_start=True),
    Rule('X-SS', 'self.stream_pos >= self.next_sym_middle', 'f_ge(self.stream_pos, self.next_sym_middle)'),
    Rule('X-SS', 'self.next_sym_middle += self.clock;', 'self.next_sym_middle = fadd(self.next_sym_middle, self.clock);', stmt_start=True),
    Rule('X-SS', 'self.stream_pos > self.last_sym_boundary_pos', 'f_gt(self.stream_pos, self.last_sym_boundary_pos)'),
    Rule('X-SS', 'self.$f:i > 0.0', 'fpos(self.$f)'),
    Rule('X-SS', 'self.sps - self.max_deviation', 'fsub(self.sps, self.max_deviation)'),
    Rule('X-SS', 'self.sps + self.max_deviation', 'fadd(self.sps, self.max_deviation)'),
    Rule('X-SS', 'self.stream_pos - self.last_sym_boundary_pos', 'fsub(self.stream_pos, self.last_sym_boundary_pos)'),
    Rule('X-SS', '(t - self.clock).abs() < (t2 - self.clock).abs()', 'f_abs_lt(fsub(t, self.clock), fsub(t2, self.clock))'),
    Rule('X-SS', 'let t2 = t - self.clock;', 'let t2 = fsub(t, self.clock);', stmt_start=True),
    Rule('X-SS', 'while t > mx', 'while f_gt(t, mx)'),
    Rule('X-SS', 't > mi * 0.8 && t < mx * 1.2', 'f_gt(t, f_mul08(mi)) && f_lt(t, f_mul12(mx))'),
    Rule('X-SS', 't > 0.0', 'fpos(t)'),
    Rule('X-SS', 'self.clock_filter.filter_clamped(t - self.sps, mi - self.sps, mx - self.sps $_:c) + self.sps',
         'fadd(self.clock_filter.filter_clamped(fsub(t, self.sps), fsub(mi, self.sps), fsub(mx, self.sps)), self.sps)'),
    Rule('X-SS', 'self.last_sym_boundary_pos + self.clock / 2.0', 'fadd(self.last_sym_boundary_pos, fhalf(self.clock))'),
    Rule('X-SS', 'self.next_sym_middle < self.stream_pos', 'f_lt(self.next_sym_middle, self.stream_pos)'),
    Rule('X-SS', 'self.stream_pos += 1.0;', 'self.stream_pos = f_inc(self.stream_pos);', stmt_start=True),
    Rule('X-SS', '10.0 * self.clock', 'fmul10(self.clock)'),
    Rule('X-SS', 'self.$f:i > step_back', 'f_gt(self.$f, step_back)'),
    Rule('X-SS', 'self.$f:i -= step_back;', 'self.$f = fsub(self.$f, step_back);', stmt_start=True))

# X-STREAM (unit stream): the Arc handle of stream.rs
add('STREAM',
    Rule('X-STREAM', 'Arc<circular_buffer::Buffer<T>>', 'BufArc<T>'),
    Rule('X-STREAM', 'circular_buffer::BufferReader', 'BufferReader'),
    Rule('X-STREAM', 'circular_buffer::BufferWriter', 'BufferWriter'),
    Rule('X-STREAM', 'Arc::strong_count(&self.circ)', 'self.circ.strong_count()'),
    Rule('X-STREAM', 'Arc::clone(&self.circ).read_buf()', 'self.circ.clone_read_buf()'),
    Rule('X-STREAM', 'Arc::clone(&self.circ).write_buf()', 'self.circ.clone_write_buf()'),
    # ReadStream::eof / new_stream
    Rule('X-STREAM', 'self.circ.clone_read_buf().expect($s:e)', 'expect_ok(self.circ.clone_read_buf())'),
    Rule('X-STREAM', 'Arc::new(circular_buffer::Buffer::new($n:e).unwrap())', 'BufArc::new_buffer_or_panic($n)'),
    # X-NCQ: the packet queue Arc<(Mutex<VecDeque<T>>, Condvar)> -> NcQ<T>; each critical section is atomic (as X-LOCK)
    Rule('X-NCQ', 'Arc<(Mutex<VecDeque<T>>, Condvar)>', 'NcQ<T>'),
    Rule('X-NCQ', 'Arc::new((Mutex::new(VecDeque::new()), Condvar::new()))', 'NcQ::new_shared()'),
    Rule('X-NCQ', 'let (lock, cv) = &*self.q;', '', stmt_start=True),
    Rule('X-NCQ', 'cv.notify_all();', '', stmt_start=True),
    Rule('X-NCQ', 'lock.lock().unwrap()', 'self.q'),
    Rule('X-NCQ', 'self.q.0.lock().unwrap()', 'self.q'),
    Rule('X-NCQ', 'Arc::strong_count(&self.q)', 'self.q.strong_count()'),
    Rule('X-NCQ', 'self.q.pop_front().map(|v| (v, Vec::new()))', 'opt_with_no_tags(self.q.pop_front())'),
    Rule('X-NCQ', 'self.q.pop_back().map(|v| (v, Vec::new()))', 'opt_with_no_tags(self.q.pop_back())'),
    Rule('X-NCQ', 'self.q.back().map(|e| e.len())', 'opt_len(self.q.back())'),
    Rule('X-NCQ', 'self.q.front().map(|e| e.len())', 'opt_len(self.q.front())'))

# X-IL2P (unit il2p)
add('IL2P',
    Rule('X-IL2P', '#[default]', ''),
    Rule('X-IL2P', 'tags.into_iter().filter(|t| t.key() == "sync").collect()', 'sync_tags(tags)'),
    Rule('X-IL2P', 'None as Option<Result<Header>>', 'None::<Result<Header>>'),
    Rule('X-IL2P', 'for $s:i in $w:i.iter().take($n:e) $body:b',
         '{ let mut __k: usize = 0; while __k < $w.len() && __k < $n { let $s = $w.get_ref(__k); __k += 1; $body } }'),
    Rule('X-IL2P', 'assert_eq![$a:e, $b:e];', 'if !(($a) == ($b)) { reach_panic(); }', stmt_start=True),
    Rule('X-IL2P', '&partial[..]', 'as_slice_u8(&partial)'),
    Rule('X-IL2P', '&header_bytes[..$n:e]', 'prefix_u8(&header_bytes, $n)'))

# X-MISC (unit misc): generator fill idioms of signal_source.rs, the mutex of vector_sink.rs
add('MISC',
    Rule('X-MISC', 'for (to, from) in o.slice().iter_mut().zip(self.take($n:e)) $body:b', 'fill_complex(&mut o, self, $n);'),
    Rule('X-MISC', 'o.slice().iter_mut().zip(self).map($c:a).for_each(drop);', 'fill_float(&mut o, self);', stmt_start=True),
    Rule('X-MISC', 'Arc<Mutex<(Vec<T>, Vec<Tag>)>>', 'Storage<T>'),
    Rule('X-MISC', 'let mut storage = self.storage.lock().unwrap();', 'let storage = &mut self.storage;', stmt_start=True),
    Rule('X-MISC', 'storage.0.len()', 'storage.samples.len()'),
    Rule('X-MISC', 'storage.0.extend(&$w:i.slice()[..$n:e]);', 'extend_samples(&mut storage.samples, &$w, $n);', stmt_start=True),
    Rule('X-MISC', 'storage.1.extend($t:i);', 'extend_tags(&mut storage.tags, $t);', stmt_start=True))

# X-CRC (unit crc): the table is a slice constant (Verus: consts are dual-mode, no slice coercion) -> array constant of the
# same literals; `fold` over the bytes -> the loop it is
add('CRC',
    Rule('X-CRC', 'const FCSTAB: &[u16] = &[', 'const FCSTAB: [u16; 256] = ['),
    Rule('X-CRC', 'data.iter().fold($init:e, |fcs, byte| $body:b)',
         '({ let mut fcs: u16 = $init; let mut __k: usize = 0; while __k < data.len() { let byte = &data[__k]; fcs = $body; __k += 1; } fcs })'),
    Rule('X-CRC', 'data.to_vec()', 'slice_to_vec(data)'),
    Rule('X-CRC', 'calc_crc(&copy)', 'calc_crc(vec_as_slice(&copy))'),
    Rule('X-CRC', 'copy[byte] ^= x;', 'copy[byte] = copy[byte] ^ x;', stmt_start=True))

# X-ZC (unit zc): float expressions of zero_crossing.rs become calls of uninterpreted functions; the optional clock stream
add('ZC',
    Rule('X-ZC', '($a:e + ($b:e / 2.0)) as u64', 'f2u(fadd($a, fhalf($b)))'),
    Rule('X-ZC', '$w:i.slice()[$i:e] = $v:e;', '$w.set($i, $v);', stmt_start=True),
    Rule('X-ZC', 'self.last_cross += self.clock;', 'self.last_cross = fadd(self.last_cross, self.clock);', stmt_start=True),
    Rule('X-ZC', '*$s:i > 0.0', 'fpos(*$s)'),
    Rule('X-ZC', 'self.counter as f32', 'u2f(self.counter)'),
    Rule('X-ZC', 'self.$f:i *= 1.0;', 'self.$f = fone(self.$f);', stmt_start=True),
    Rule('X-ZC', '(10.0 * self.clock) as u64', 'f2u(fmul10(self.clock))'),
    Rule('X-ZC', 'self.last_cross as u64', 'f2u(self.last_cross)'),
    Rule('X-ZC', 'self.last_cross -= $s:i as f32;', 'self.last_cross = fsub(self.last_cross, u2f($s));', stmt_start=True),
    Rule('X-ZC', 'self.counter += 1;', 'self.counter = inc_u64(self.counter);', stmt_start=True),
    # the stream contract models the environment through `&mut`; a shared borrow of the Option becomes a mutable one
    Rule('X-ZC', 'self.out_clock.as_ref()', 'self.out_clock.as_mut()'),
    Rule('X-ZC', 'BlockRet::WaitForStream($s:i, $n:e)', 'BlockRet::WaitForStream($s.wait_id(), $n)'),
    Rule('X-ZC', 'if let Some($s:i) = out_clock { $s2:i.produce($n:e, &[]); }', 'if let Some($s) = out_clock { opt_produce(&mut self.out_clock, $s, $n); }'))

# X-FFTS (unit fftstream)
add('FFTS',
    Rule('X-FFTS', 'std::sync::Arc<dyn rustfft::Fft<Float>>', 'FftPlan'),
    Rule('X-FFTS', 'let oo = o.slice();', '', stmt_start=True),
    Rule('X-FFTS', 'oo[..$k:e].copy_from_slice(&ii[..$k2:e]);', 'o.copy_prefix_from(&input, $k);', stmt_start=True),
    Rule('X-FFTS', 'oo.len()', 'o.len()'),
    Rule('X-FFTS', 'use rayon::prelude::*;', '', stmt_start=True),
    Rule('X-FFTS', 'oo.par_chunks_exact_mut($s:e).for_each($c:e);', 'fft_chunks(&mut o, $s, &self.fft);', stmt_start=True),
    Rule('X-FFTS', 'oo.chunks_exact_mut($s:e).for_each($c:e);', 'fft_chunks(&mut o, $s, &self.fft);', stmt_start=True))

# X-XPAND (unit syncx): rustc's -Zunpretty=expanded output of the derive macro -- absolute paths, the lowered assert_ne!,
# the `[..].iter().fold(init, min)` clamp, empty-slice literals
_FOLD = '.iter().fold($init:e, |min, &x| min.min(x))'
add('XPAND',
    *[Rule('X-XPAND', p, r) for p, r in (
        ('rustradio::stream::', ''), ('rustradio::block::', ''), ('rustradio::Result', 'Result'),
        ('crate::stream::', ''), ('crate::block::', ''), ('crate::Result', 'Result'),
        ('std::borrow::Cow', 'Cow'))],
    Rule('X-XPAND', 'match (&($a:e), &($b:e)) { (left_val, right_val) => { if *left_val == *right_val $body:b } };',
         'if ($a) == ($b) { reach_panic(); }'),
    Rule('X-XPAND', '[$a:e, $b:e, $c:e]' + _FOLD, 'fold_min_3($init, $a, $b, $c)'),
    Rule('X-XPAND', '[$a:e, $b:e]' + _FOLD, 'fold_min_2($init, $a, $b)'),
    Rule('X-XPAND', '[$a:e]' + _FOLD, 'fold_min_1($init, $a)'),
    Rule('X-XPAND', '&[]', 'no_tags()'),
    Rule('X-XPAND', '$x:i.into()', '$x.into_shim()'),
    Rule('X-XPAND', '$t:i::default()', 'default_of::<$t>()'),
    Rule('X-XPAND', 'new<$g:i: Into<$t:t>>', 'new<$g: IntoShim<$t>>'))

# X-SYNCLOOP: the generated sync loop is a lazy iterator pipeline
#     let it = A.iter().take(n).zip(B.iter())...enumerate().map(|(pos, PAT)| BODY);
#     for ((X_sample, ..), X, ..) in izip!(it, X.slice().iter_mut(), ..) { (*X, ..) = (X_sample, ..); }
# which is the loop `for pos in 0..min(n, A.len(), B.len().., X.len()..)`: take(n) bounds the first iterator, every
# zip (izip! is nested zips) ends with its shorter side, enumerate counts from 0, and the closure body runs once per
# element, in order, because `for` pulls one element at a time.  The rule is built from the stream names found in the
# function text; any other shape does not match and the unit is undecided.
add('SYNCLOOP', Rule('X-SYNCLOOP', '__placeholder_never_matches__', ''))


def sync_rules(text):
    from rtok import tokenize
    toks = [t.text for t in tokenize(text)]
    ins, outs = [], []
    for i in range(len(toks) - 9):
        if toks[i] == 'let' and toks[i + 2:i + 5] == ['=', 'self', '.'] and toks[i + 5] == toks[i + 1] \
                and toks[i + 6:i + 8] == ['.', 'read_buf']:
            ins.append(toks[i + 1])
        if toks[i] == 'let' and toks[i + 1] == 'mut' and toks[i + 3:i + 6] == ['=', 'self', '.'] \
                and toks[i + 6] == toks[i + 2] and toks[i + 7:i + 9] == ['.', 'write_buf']:
            outs.append(toks[i + 2])
    if not ins or not outs or 'it' not in toks:
        return []
    zp = '::itertools::__std_iter::'
    chain = '%s.iter().take($tk:e)' % ins[0] + ''.join('.zip(%s.iter())' % b for b in ins[1:])
    pat = ins[0]
    for b in ins[1:]:
        pat = '(%s, %s)' % (pat, b)
    p1 = 'let it = %s.enumerate().map(|(pos, %s)| $body:b);' % (chain, pat)
    samples = ', '.join('%s_sample' % o for o in outs)
    if len(outs) == 1:
        o = outs[0]
        p2 = ('for ((%s_sample), %s) in %sIterator::zip(%sIntoIterator::into_iter(it), %s.slice().iter_mut()) '
              '{ (*%s) = (%s_sample); }' % (o, o, zp, zp, o, o, o))
    else:
        zips = ' '.join('let iter = %sIterator::zip(iter, %s.slice().iter_mut());' % (zp, o) for o in outs)
        p2 = ('for ((%s), %s) in { let iter = %sIntoIterator::into_iter(it); %s %sIterator::map(iter, $flat:e) } '
              '{ (%s) = (%s); }' % (samples, ', '.join(outs), zp, zips, zp, ', '.join('*' + o for o in outs), samples))
    steps = '($tk)'
    for x in ins + outs:
        steps = 'min_usize(%s, %s.len())' % (steps, x)
    binds = ' '.join('let %s = %s.get_ref(pos);' % (a, a) for a in ins)
    sets = ' '.join('%s.set(pos, %s_sample);' % (o, o) for o in outs)
    lhs = '%s_sample' % outs[0] if len(outs) == 1 else '(%s)' % samples
    repl = ('let __steps = %s; let mut pos: usize = 0;\nwhile pos < __steps {\nlet %s = { %s $body };\n%s\npos += 1;\n}'
            % (steps, lhs, binds, sets))
    out = [Rule('X-SYNCLOOP', p1 + ' ' + p2, repl)]
    for a in ins:
        out.append(Rule('X-SYNCLOOP', '&%s_tag' % a, '%s_tag.as_slice()' % a))
    for a in ins:
        out.append(Rule('X-SYNCLOOP',
                        'let %s_tag: Vec<_> = %s_tag.iter().filter(|t| t.pos() == pos).map(|t| Tag::new(0, t.key().to_string(), t.val().clone())).collect();' % (a, a),
                        'let %s_tag: Vec<Tag> = tags_at(&%s_tag, pos);' % (a, a)))
    out.append(Rule('X-SYNCLOOP', 'for tag in ts.iter() $b:b',
                    'let __ts = ts.as_slice(); let mut __i: usize = 0; while __i < __ts.len() { let tag = &__ts[__i]; $b __i += 1; }'))
    return out


def apply_for_scan(rules, text):
    """Apply rules to a throw-away copy (sync_rules reads stream names from path-stripped text)."""
    from rewrite import apply_rules
    return apply_rules(rules, text, 1, [], 'scan')[0]
