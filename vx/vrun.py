"""Run Verus on a generated unit file and classify the outcome per labelled obligation."""
import json
import os
import re
import subprocess
import time
from gen import Unit, GenError

VERIF = os.path.dirname(os.path.dirname(os.path.abspath(__file__)))
BUILD = os.environ.get('VERIF_BUILD') or os.path.join(VERIF, 'build')

SMT_FAIL = (
    ('postcondition not satisfied', 'postcondition'),
    ('precondition not satisfied', 'precondition'),
    ('invariant not satisfied', 'invariant'),
    ('assertion failed', 'assert'),
    ('possible arithmetic underflow/overflow', 'overflow'),
    ('possible division by zero', 'divzero'),
    ('possible bit shift underflow/overflow', 'shift'),
    ('decreases not satisfied', 'decreases'),
    ('could not prove termination', 'decreases'),
    ('unable to prove assertion safety condition', 'assert'),
    ('assert_by_compute', 'assert'),
    ('which evaluates to false', 'assert'),      # `assert(..) by (compute)` whose expression computes to false: a definite failure
    ('recommendation not met', 'recommends'),
    ('requires not satisfied', 'assert'),
    ('loop invariant', 'invariant'),
    ('cannot show invariant', 'invariant'),
    ('postcondition', 'postcondition'),
    ('precondition', 'precondition'),
)

NOT_SMT = ('disambiguate by wrapping', 'is not supported', 'cannot call function', 'cannot find', 'expected ')

_PROPLABEL = re.compile(r'^((?:C\d{2,3})(?:\+C\d{2,3})*)\.')
_TRAIL_LABEL = re.compile(r'//\s*\[([^\]]+)\]\s*$')


def label_props(label):
    if not label:
        return None
    m = _PROPLABEL.match(label)
    return m.group(1).split('+') if m else None


class UnitResult:
    def __init__(self, name):
        self.name = name
        self.status = 'ok'          # ok | failed | undecided
        self.reason = ''
        self.failures = []          # dicts
        self.functions = []         # {fn, time_ms, success, rlimit}
        self.n_verified = 0
        self.n_errors = 0
        self.rule_log = []
        self.cuts = []
        self.clauses = []
        self.fn_meta = {}
        self.trusted = []
        self.twins_ok = []
        self.twins_bad = []
        self.wall_s = 0.0
        self.verus_cmd = ''
        self.gen_path = ''
        self.raw = ''
        self.smt_ms = 0


def scan_trusted(text):
    out = []
    lines = text.split('\n')
    bad = []
    for i, l in enumerate(lines):
        code = l.split('//')[0]
        if re.search(r'\b(assume|admit)\s*\(', code):
            bad.append('%d: %s' % (i + 1, l.strip()))
        if 'external_body' in code or 'assume_specification' in code or re.search(r'\buninterp\b', code):
            # name = next fn/struct on this or the following lines
            for j in range(i, min(i + 6, len(lines))):
                m = re.search(r'\b(fn|struct|enum)\s+(\w+)', lines[j])
                if m:
                    kind = 'uninterp spec' if 'uninterp' in code else 'external_body'
                    out.append('%s %s %s' % (kind, m.group(1), m.group(2)))
                    break
    seen = []
    for o in out:
        if o not in seen:
            seen.append(o)
    return seen, bad


def generate(unit_name, repo, extra_consts=(), inline=()):
    tpl = os.path.join(VERIF, 'units', unit_name, 'unit.vx')
    u = Unit(unit_name, repo, tpl)
    u.extra_consts = list(extra_consts)
    u.extra_rules = list(inline)
    u.process()
    return u


def _find_consts(u, repo, names):
    """A restructured function may use a module-level `const` that the unit's template does not cut.  A const is its own
    specification, so cutting it as well is sound: look for `const NAME` in the files this unit already cuts from."""
    import re as _re
    out = []
    for name in names:
        for path in sorted({c['path'] for c in u.cuts}):
            try:
                txt = open(os.path.join(repo, path)).read()
            except OSError:
                continue
            if _re.search(r'^(pub(\([a-z:]+\))?\s+)?const\s+%s\s*:' % _re.escape(name), txt, _re.M):
                out.append((path, name))
                break
    return out


def _find_inline_rules(u, repo, names):
    """Rule X-INLINE: `R.name(a, b)` -> `({ let __a0 = a; let __a1 = b; let p: T = __a0; ..; BODY[self := R] })` for a
    method `fn name(&self, p: T, ..) -> U { BODY }` found (exactly once) in the files this unit cuts from, whose body has
    no `return`, `?`, loop, closure or assignment and whose receiver is `&self` (or absent parameters by value).  The
    replacement is the callee's own text, so the caller is verified with the callee's real behaviour."""
    from rtok import Source, tokenize, match_close
    from rewrite import Rule
    out = []
    for name in names:
        hits = []
        for path in sorted({c['path'] for c in u.cuts if not c['path'].startswith('@')}):
            try:
                src = Source(path, open(os.path.join(repo, path)).read())
            except OSError:
                continue
            for it in src._all():
                if it.kind == 'impl' and it.members:
                    for m in it.members:
                        if m.kind == 'fn' and m.name == name and m.body_open >= 0:
                            hits.append((src, m))
        if len(hits) != 1:
            return []
        src, m = hits[0]
        toks = src.toks
        # signature: fn name ( params ) -> T {
        k = m.tok_start
        while toks[k].text != 'fn':
            k += 1
        k += 2
        if toks[k].text != '(':
            return []                       # generic helper: not handled
        pc = match_close(toks, k)
        ptoks = toks[k + 1:pc]
        ptext = src.text[ptoks[0].start:ptoks[-1].end] if ptoks else ''
        parts = [x.strip() for x in _split_top(ptext)]
        if not parts or parts[0] not in ('&self', 'self'):
            return []
        params = []
        for q in parts[1:]:
            if not q:
                continue
            mm = re.match(r'^(\w+)\s*:\s*(.+)$', q, re.S)
            if not mm or '&mut' in mm.group(2):
                return []
            params.append((mm.group(1), ' '.join(mm.group(2).split())))
        body = toks[m.body_open + 1:m.body_close]
        texts = [t.text for t in body]
        if not body or any(t in ('return', '?', 'loop', 'while', 'for', '|', 'unsafe', 'break', 'continue') for t in texts):
            return []
        if any(t in ('=', '+=', '-=', '*=', '/=', '%=', '^=', '|=', '&=', '<<=', '>>=') and not (i > 0 and _is_let_eq(texts, i))
               for i, t in enumerate(texts)):
            return []
        btxt = ''
        pos = body[0].start
        for t in body:
            btxt += src.text[pos:t.start]
            btxt += '$r' if (t.kind == 'id' and t.text == 'self') else t.text
            pos = t.end
        pat = '$r:p.%s(%s)' % (name, ', '.join('$a%d:e' % i for i in range(len(params))) + (' $_c:c' if params else ''))
        lets = ' '.join('let __a%d = $a%d;' % (i, i) for i in range(len(params)))
        binds = ' '.join('let %s: %s = __a%d;' % (pn, pt, i) for i, (pn, pt) in enumerate(params))
        out.append(Rule('X-INLINE', pat, '({ %s %s %s })' % (lets, binds, btxt)))
    return out


def _split_top(s):
    out, depth, cur = [], 0, ''
    for ch in s:
        if ch in '([{<':
            depth += 1
        elif ch in ')]}>':
            depth -= 1
        if ch == ',' and depth == 0:
            out.append(cur)
            cur = ''
        else:
            cur += ch
    out.append(cur)
    return out


def _is_let_eq(texts, i):
    """texts[i] == '=' belongs to a `let PATTERN [: T] =` binding?"""
    j = i - 1
    while j >= 0 and texts[j] not in (';', '{', '}'):
        j -= 1
    return j + 1 < len(texts) and texts[j + 1] == 'let'


_LOOPS = {}


def _in_loop(text, line):
    """Is 1-based `line` of the generated file inside the body of a `while` / `loop` / `for` loop?"""
    if not line:
        return False
    key = hash(text)
    if key not in _LOOPS:
        from rtok import tokenize, match_close
        toks = tokenize(text)
        spans = []
        for i, t in enumerate(toks):
            if t.kind == 'id' and t.text in ('while', 'loop') or (t.kind == 'id' and t.text == 'for' and i > 0 and toks[i - 1].text in ('{', '}', ';', ':')):
                j = i + 1
                while j < len(toks) and toks[j].text != '{':
                    if toks[j].text in ('(', '['):
                        j = match_close(toks, j)
                    j += 1
                if j < len(toks):
                    try:
                        k = match_close(toks, j)
                    except ValueError:
                        continue
                    spans.append((text.count('\n', 0, toks[j].start) + 1, text.count('\n', 0, toks[k].start) + 1))
        _LOOPS.clear()
        _LOOPS[key] = spans
    return any(a <= line <= b for a, b in _LOOPS[key])


DEFAULT_RLIMIT = 30   # Verus' default is 10; units that need more than ~1/3 of this are split (DESIGN.md section 7)


def run_unit(unit_name, repo='/repo', rlimit=None, twins=True, extra_args=(), tag='', extra_consts=(), inline=()):
    res = UnitResult(unit_name)
    t0 = time.time()
    try:
        u = generate(unit_name, repo, extra_consts, inline)
    except GenError as e:
        if getattr(e, 'derive_only', False):
            # the derive users of hooks/syncx_blocks.rs use only documented features; when the ONLY compiler errors lie
            # inside the code the derive macro generated for them, the macro no longer serves that arity / mode: a
            # definite failure with a concrete failing program (not an extraction problem)
            res.status = 'failed'
            res.failures.append({'unit': unit_name, 'fn': 'hooks/syncx_blocks.rs', 'kind': 'compile',
                                 'label': 'C19.syncx.derive-users-of-every-arity-compile', 'props': ['C19'],
                                 'message': str(e), 'gen_line': None, 'src': None, 'stmt': '',
                                 'rendered': getattr(e, 'output', '')[:3000],
                                 'counterexample': {'kind': 'program', 'program': 'hooks/syncx_blocks.rs',
                                                    'errors': getattr(e, 'output', '')[:2000],
                                                    'cmd': 'cargo check --offline --test verif_syncx   (in a scratch copy of /repo with hooks/syncx_blocks.rs as tests/verif_syncx.rs)'}})
            res.reason = str(e)
            res.verus_cmd = 'cargo check --offline --test verif_syncx (vx/expand.py)'
            return res
        res.status, res.reason = 'undecided', str(e)
        return res
    except Exception as e:  # tokenizer / template problems are never a violation
        res.status, res.reason = 'undecided', 'extractor error: %r' % (e,)
        return res
    text, lines = u.render(with_twins=twins)
    os.makedirs(BUILD, exist_ok=True)
    path = os.path.join(BUILD, '%s%s.rs' % (unit_name, tag))
    with open(path, 'w') as f:
        f.write(text)
    res.gen_path = path
    res.rule_log, res.cuts, res.clauses, res.fn_meta = u.rule_log, u.cuts, u.clauses, u.fns
    res.trusted, bad = scan_trusted(text)
    if bad:
        res.status, res.reason = 'undecided', 'assume/admit present in generated text: ' + '; '.join(bad[:3])
        return res
    cmd = ['verus', path, '--error-format=json', '--output-json', '--time', '--multiple-errors', '20',
           '--triggers-mode', 'silent']
    cmd += ['--rlimit', str(rlimit or DEFAULT_RLIMIT)]
    cmd += list(extra_args)
    res.verus_cmd = ' '.join(cmd)
    xp = sorted({c['path'].split('/', 1)[1] for c in u.cuts if c['path'].startswith('@expanded/')})
    if xp:
        # the text was cut from rustc's macro expansion of /repo's current tree (vx/expand.py)
        res.verus_cmd = ' && '.join('RUSTC_BOOTSTRAP=1 cargo rustc --offline %s --profile check -- -Zunpretty=expanded%s' % (
            '--lib' if w == 'lib' else '--test verif_syncx', '' if w == 'lib' else ' && cargo check --offline --test verif_syncx')
            for w in xp) + ' && ' + res.verus_cmd
    env = dict(os.environ)
    try:
        p = subprocess.run(cmd, capture_output=True, text=True, timeout=900, env=env, cwd=BUILD)
    except subprocess.TimeoutExpired:
        res.status, res.reason = 'undecided', 'verus timeout (900 s)'
        return res
    res.raw = p.stderr[-20000:]
    res.wall_s = time.time() - t0
    # ---- stdout JSON
    js = None
    try:
        start = p.stdout.index('{')
        js = json.loads(p.stdout[start:])
    except Exception:
        js = None
    twin_fns = {fn for fn, _ in u.twins}
    if js and 'verification-results' in js:
        vr = js['verification-results']
        res.n_verified, res.n_errors = vr.get('verified', 0), vr.get('errors', 0)
    if js and 'times-ms' in js:
        try:
            smt = js['times-ms']['smt']
            res.smt_ms = smt.get('total', 0)
            for mod in smt.get('smt-run-module-times', []):
                for fb in mod.get('function-breakdown', []):
                    res.functions.append({'fn': fb['function'], 'time_ms': fb.get('time', 0),
                                          'success': fb.get('success'), 'rlimit': fb.get('rlimit')})
        except Exception:
            pass
    # ---- diagnostics
    diags = []
    hard = []
    for ln in p.stderr.split('\n'):
        ln = ln.strip()
        if not ln.startswith('{'):
            continue
        try:
            d = json.loads(ln)
        except Exception:
            continue
        if d.get('$message_type') != 'diagnostic':
            continue
        if d.get('level') != 'error':
            continue
        msg = d.get('message', '')
        if msg.startswith('aborting due to'):
            continue
        diags.append(d)
    twin_failed = set()
    twin_rlimit = set()
    rlimit_fns = []
    for d in diags:
        msg = d['message']
        kind = None
        for pat, k in SMT_FAIL:
            if pat in msg:
                kind = k
                break
        if any(x in msg for x in NOT_SMT):
            kind = None          # a front-end (syntax / mode) error that merely mentions a contract word
        spans = d.get('spans', [])
        metas = []
        for sp in spans:
            if os.path.basename(sp['file_name']) != os.path.basename(path):
                metas.append((sp, None))
                continue
            li = sp['line_start'] - 1
            metas.append((sp, lines[li] if 0 <= li < len(lines) else None))
        if kind is None:
            if 'rlimit' in msg.lower() or 'resource limit' in msg.lower() or 'timed out' in msg.lower():
                if any(m is not None and m.twin for _, m in metas):
                    # the solver gave up trying to prove `false` in a vacuity twin: the twin did not verify
                    for _, m in metas:
                        if m is not None and m.twin and m.fn:
                            twin_failed.add(m.fn)
                            twin_rlimit.add(m.fn)
                    continue
                fnn = None
                for _, m in metas:
                    if m is not None and m.fn:
                        fnn = m.fn
                rlimit_fns.append((fnn, 'solver limit: ' + msg))
            else:
                loc = ''
                for sp, m in metas:
                    loc = ' at %s:%d `%s`' % (os.path.basename(sp['file_name']), sp['line_start'],
                                              (sp['text'][0]['text'].strip() if sp.get('text') else ''))
                    break
                hard.append('verus/rustc error: ' + msg + loc)
            continue
        # twin?
        is_twin = any(m is not None and m.kind == 'twin' for _, m in metas)
        label = None
        fn = None
        src = None
        callee_label = None
        gen_line = None
        stmt = ''
        for sp, m in metas:
            if m is None:
                continue
            tl = _TRAIL_LABEL.search(m.text)
            if m.kind in ('ensures', 'invariant', 'twin') or (m.kind == 'proof' and (m.label or tl)):
                label = label or m.label or (tl.group(1) if tl else None)
                fn = fn or m.fn
                gen_line = gen_line or sp['line_start']
            elif m.kind == 'requires' or (m.kind == 'prelude' and kind == 'precondition' and not sp['is_primary']):
                callee_label = m.label or (tl.group(1) if tl else None)
            elif m.kind in ('body', 'proof', 'sig', 'cut'):
                fn = m.fn or fn
                if m.src and (src is None or sp['is_primary']):
                    src = m.src
                if sp['is_primary'] or not stmt:
                    stmt = m.text.strip()
                    gen_line = sp['line_start']
            elif m.kind == 'prelude':
                if tl:
                    label = label or tl.group(1)
                gen_line = gen_line or sp['line_start']
                if not stmt:
                    stmt = m.text.strip()
        if is_twin:
            twin_failed.add(fn)
            continue
        # failures reported inside a twin copy duplicate the original's: skip them
        if any(m is not None and m.twin for _, m in metas):
            continue
        if kind == 'precondition' and callee_label and not label:
            label = callee_label
        props = label_props(label)
        if props is None:
            props = (u.fns.get(fn, {}).get('props') if fn else None) or u.props
            # an unlabelled arithmetic / index / callee-precondition obligation is a possible PANIC: charged to C15 wherever
            # the unit serves C15, also when the function's hint failures are confined to another property by //@props
            # (seed Z15: a u64 underflow in ZeroCrossing::work was charged to C08 only and C15 said OK)
            if kind in ('overflow', 'divzero', 'shift', 'precondition') and 'C15' in (u.props or []) and 'C15' not in props:
                props = list(props) + ['C15']
        if fn is None:
            # failure in prelude proof code (lemma): charge to the whole unit
            fn = '<unit-lemma>'
        res.failures.append({'unit': unit_name, 'fn': fn, 'label': label or ('%s.%s' % (fn, kind)), 'kind': kind,
                             'props': props, 'message': msg, 'gen_line': gen_line, 'src': src, 'stmt': stmt,
                             'labelled': bool(label), 'in_loop': _in_loop(text, gen_line),
                             'rendered': d.get('rendered', '')[:3000]})
    # a resource limit hit while Verus was looking for FURTHER errors in a function that already has a definite
    # failed obligation does not make that failure undecided; a limit with no definite failure does.
    failed_fns = {f['fn'] for f in res.failures}
    for fnn, why in rlimit_fns:
        if fnn is None or fnn not in failed_fns:
            hard.append(why + (' in %s' % fnn if fnn else ''))
    if hard:
        missing = set()
        for h in hard:
            m = re.match(r'verus/rustc error: cannot find value `([A-Z][A-Z0-9_]*)` in this scope', h)
            if m:
                missing.add(m.group(1))
        if missing and not extra_consts and all(h.startswith('verus/rustc error: cannot find value') for h in hard):
            found = _find_consts(u, repo, sorted(missing))
            if len(found) == len(missing):
                return run_unit(unit_name, repo, rlimit, twins, extra_args, tag, tuple(found), inline)
        # a restructured function may call a NEW small helper method the template does not cut; when the helper is a
        # pure expression (no mutation, no early exit, no loop) its call is replaced by its body (rule X-INLINE) and
        # the restructured function is verified against the unchanged contract
        helpers = set()
        for h in hard:
            m = re.match(r'verus/rustc error: no method named `(\w+)` found for ', h)
            if m:
                helpers.add(m.group(1))
        if helpers and not inline and all(h.startswith('verus/rustc error: no method named') for h in hard):
            rules = _find_inline_rules(u, repo, sorted(helpers))
            if rules and len(rules) == len(helpers):
                return run_unit(unit_name, repo, rlimit, twins, extra_args, tag, extra_consts, tuple(rules))
        res.status, res.reason = 'undecided', '; '.join(hard[:4])
        return res
    if js is None:
        res.status, res.reason = 'undecided', 'no JSON summary from verus (exit %d): %s' % (p.returncode, p.stderr[-400:])
        return res
    if twins:
        for fn in twin_fns:
            (res.twins_ok if fn in twin_failed else res.twins_bad).append(fn)
        if res.twins_bad:
            res.status = 'undecided'
            res.reason = 'vacuity: `ensures false` twin verified for %s (contradictory precondition or shim)' % \
                ', '.join(sorted(res.twins_bad))
            return res
    if res.failures:
        res.status = 'failed'
    elif res.n_errors > len(twin_failed) + len(twin_rlimit) + len(rlimit_fns):
        res.status, res.reason = 'undecided', 'verus reports %d errors but %d twin failures were classified' % (
            res.n_errors, len(twin_failed))
    if res.n_verified == 0 and not res.failures:
        res.status, res.reason = 'undecided', 'zero functions verified'
    return res


