"""Properties not claimed, with the reason (DESIGN.md section 6)."""
NA = {
 'C03': 'quantifier is thread schedules at lock/refcount granularity: Kani has no threads; Verus would need the ring rewritten onto its permission types, which is no longer the real code. The sequential facts the mechanism rests on are proved under C01 and not offered as a decision of C03.',
 'C04': 'check-then-act between buffered count and Arc::strong_count under interleaving plus bounded waiting (Condvar::wait_timeout_while): schedule/liveness facts with no deductive model in Verus or Kani.',
 'C05': 'threads, dyn Block, termination of a whole graph: outside both tools (Kani: no threads, no termination; Verus: no dyn, no thread spawn on real code).',
 'C06': 'Graph::run is a loop over Vec<Box<dyn Block>> whose exit rule is sound only relative to a semantic contract of every block and a global progress measure; Verus cannot take dyn Block, closures, Instant or libc clock calls, and a restatement over an abstract block interface would be a model.',
 'C07': 'cancellation at every scheduling point is a schedule quantifier; the error half lives in thread spawn/join code neither tool can take.',
 'C11': 'floating-point DSP against mathematical definitions within rounding bounds: Verus has no float arithmetic theory, Kani bit-precise floats cannot carry a 200-term dot product or an FFT, AVX path is core::arch intrinsics.',
 'C18': 'mmap/munmap/MAP_FIXED, descriptor lifetime and /proc counts are OS state reached through unsafe FFI; no contract in reach models them. The pure argument check (element size must divide the size) is a Buffer::new postcondition under C01.',
 'C20': 'whole-pipeline floating-point DSP over generated signals on both runners: compositional float reasoning plus schedulers, none in reach (see C05, C06, C11).',
}
