"""kx -- Kani on an injected scratch copy of the real crate (DESIGN.md section 3.2).

Only stream-free, loop-free (or fixed-trip-count) functions over their full input domain go
here; for those a successful harness is a complete proof.  Anything bounded is labelled so.
"""
import fcntl
import json
import os
import re
import shutil
import subprocess
import time

VERIF = os.path.dirname(os.path.dirname(os.path.abspath(__file__)))
BUILD = os.environ.get('VERIF_BUILD') or os.path.join(VERIF, 'build')
SCRATCH = os.path.join(BUILD, 'kx-src')
TARGET = os.path.join(BUILD, 'kx-target')
LOCK = os.path.join(BUILD, 'kx.lock')

# group -> description.  Each harness: name, source file it is injected into, function(s) under proof,
# label, properties, bounded (None or text), expect ('pass' or 'known-fail').
import kgroups  # noqa: E402


class KResult:
    def __init__(self, name):
        self.name = 'kani:' + name
        self.status = 'ok'
        self.reason = ''
        self.failures = []
        self.harnesses = []
        self.trusted = []
        self.cmd = ''
        self.wall_s = 0.0
        self.bounded = []
        self.raw = ''

    def account(self, prop):
        n = 0
        fl = []
        sm = []
        for h in self.harnesses:
            if prop not in h['props']:
                continue
            n += 1 + h.get('checks', 0)
            fl.append({'function': h['function'], 'source': h['file'], 'engine': 'kani/cbmc', 'harness': h['name'],
                       'solver_s': h.get('time_s'), 'checks': h.get('checks'), 'bounded': h.get('bounded'),
                       'complete_for': h.get('domain')})
            sm.append({'function': h['function'], 'label': h['label'], 'kind': 'kani-harness', 'clause': h.get('claim', '')})
        return n, n, fl, sm


def _prepare(repo, files):
    os.makedirs(os.path.dirname(SCRATCH), exist_ok=True)
    # the injected files differ from /repo's by the appended `mod` line: sync into a pristine mirror first (checksum
    # compare, changed files get the current time), then copy the mirror's changed files and re-inject
    import synctree
    mirror = SCRATCH + '-mirror'
    synctree.sync(repo, mirror)
    synctree.sync(mirror, SCRATCH + '-stage')
    stage = SCRATCH + '-stage'
    for rel, modname, proofs in files:
        p = os.path.join(stage, rel)
        if not os.path.exists(p):
            raise FileNotFoundError('lost anchor: %s missing' % rel)
        with open(p, 'a') as f:
            f.write('\n#[cfg(kani)]\n#[path = "%s"]\nmod %s;\n' % (os.path.join(VERIF, 'kani', proofs), modname))
    synctree.sync(stage, SCRATCH)
    cfg = os.path.join(SCRATCH, '.cargo')
    os.makedirs(cfg, exist_ok=True)
    with open(os.path.join(cfg, 'config.toml'), 'w') as f:
        f.write('[net]\noffline = true\n')


def _parse(out):
    """harness -> {status, failed: [desc], checks: n, time}.  With -j the per-harness result blocks are
    printed atomically, introduced by `Thread N: `; `Thread N: Checking harness X...` says which harness
    thread N is working on."""
    res = {}
    cur = None
    thread_h = {}
    for ln in out.split('\n'):
        m = re.match(r'(?:Thread (\d+): )?Checking harness (\S+?)\.\.\.', ln)
        if m:
            cur = m.group(2)
            if m.group(1) is not None:
                thread_h[m.group(1)] = cur
                cur = None
            res[m.group(2)] = {'status': None, 'failed': [], 'checks': 0, 'time_s': None, 'unwind_fail': False}
            continue
        m = re.match(r'Thread (\d+): \s*$', ln)
        if m:
            cur = thread_h.get(m.group(1))
            continue
        if cur is None:
            continue
        m = re.match(r'\s*\*\* (\d+) of (\d+) failed', ln)
        if m:
            res[cur]['checks'] = int(m.group(2))
        m = re.match(r'Failed Checks: (.*)', ln)
        if m:
            res[cur]['failed'].append(m.group(1).strip())
            if 'unwinding assertion' in ln:
                res[cur]['unwind_fail'] = True
        m = re.match(r'Verification Time: ([0-9.]+)s', ln)
        if m:
            res[cur]['time_s'] = float(m.group(1))
        m = re.match(r'VERIFICATION:- (\w+)', ln)
        if m:
            res[cur]['status'] = m.group(1)
    return res


def run_groups(groups, repo='/repo', tier='quick'):
    """Run several groups in one cargo-kani invocation (one build, one lock); returns {group: KResult}."""
    merged = {'files': kgroups.ALLFILES, 'harnesses': [], 'timeout': 1200}
    owner = {}
    for gname in groups:
        for h in kgroups.G[gname]['harnesses']:
            merged['harnesses'].append(h)
            owner[h['name']] = gname
    kgroups.G['__merged__'] = merged
    try:
        big = run_group('__merged__', repo, tier)
    finally:
        del kgroups.G['__merged__']
    out = {}
    for gname in groups:
        r = KResult(gname)
        r.status, r.reason, r.cmd, r.wall_s, r.trusted, r.raw = big.status if big.status == 'undecided' else 'ok', big.reason, big.cmd, big.wall_s, big.trusted, big.raw
        r.harnesses = [h for h in big.harnesses if owner.get(h['name']) == gname]
        r.failures = [dict(f, unit='kani:' + gname) for f in big.failures if owner.get(f.get('harness')) == gname]
        r.bounded = [b for b in big.bounded if owner.get(b['harness']) == gname]
        if r.failures and r.status == 'ok':
            r.status = 'failed'
        out[gname] = r
    return out


def run_group(group, repo='/repo', tier='quick'):
    g = kgroups.G[group]
    r = KResult(group)
    t0 = time.time()
    os.makedirs(BUILD, exist_ok=True)
    hs = [h for h in g['harnesses'] if tier == 'thorough' or not h.get('thorough_only')]
    with open(LOCK, 'w') as lk:
        fcntl.flock(lk, fcntl.LOCK_EX)
        try:
            allfiles = []
            for gg in kgroups.G.values():
                for f in gg['files']:
                    if f not in allfiles:
                        allfiles.append(f)
            _prepare(repo, allfiles)
        except Exception as e:
            r.status, r.reason = 'undecided', 'kx prepare: %r' % (e,)
            return r
        cmd = ['cargo', 'kani', '--target-dir', TARGET, '-Z', 'function-contracts', '-Z', 'stubbing', '-j', '8',
               '--output-format', 'terse']
        for h in hs:
            cmd += ['--harness', h['name']]
        r.cmd = 'cd <scratch copy of /repo with #[cfg(kani)] mod injected> && CARGO_NET_OFFLINE=true ' + ' '.join(cmd)
        env = dict(os.environ, CARGO_NET_OFFLINE='true')
        try:
            p = subprocess.run(cmd, cwd=SCRATCH, env=env, capture_output=True, text=True, timeout=g.get('timeout', 900))
        except subprocess.TimeoutExpired:
            r.status, r.reason = 'undecided', 'kani timeout'
            return r
        out = p.stdout + '\n' + p.stderr
        r.raw = out[-30000:]
        parsed = _parse(out)
        for h in hs:
            key = None
            for k in parsed:
                if k == h['name'] or k.endswith('::' + h['name']):
                    key = k
            rec = dict(h)
            if key is None or parsed[key]['status'] is None:
                r.status = 'undecided'
                r.reason = 'harness %s produced no verdict (build error or tool failure): %s' % (h['name'], out[-1500:])
                r.harnesses.append(rec)
                continue
            pr = parsed[key]
            rec.update({'checks': pr['checks'], 'time_s': pr['time_s'], 'status': pr['status']})
            r.harnesses.append(rec)
            if h.get('bounded'):
                r.bounded.append({'harness': h['name'], 'bound': h['bounded']})
            if pr['status'] == 'SUCCESSFUL':
                continue
            if pr['unwind_fail'] and all('unwinding' in x for x in pr['failed']):
                r.status = 'undecided'
                r.reason = 'harness %s: unwinding bound too small' % h['name']
                continue
            fail = {'unit': r.name, 'fn': h['function'], 'label': h['label'], 'kind': 'kani-check', 'props': h['props'],
                    'message': '; '.join(pr['failed'])[:1000], 'src': (h['file'], 0), 'stmt': h.get('claim', ''),
                    'rendered': '\n'.join(pr['failed'])[:3000], 'harness': h['name']}
            r.failures.append(fail)
        fcntl.flock(lk, fcntl.LOCK_UN)
    r.trusted = ['Kani/CBMC bit-precise semantics of the compiled MIR', 'harness files under /verif/kani (specifications)'] + g.get('trusted', [])
    if r.failures and r.status == 'ok':
        r.status = 'failed'
    r.wall_s = time.time() - t0
    return r


def playback(h_name):
    return _playback({'name': h_name}, dict(os.environ, CARGO_NET_OFFLINE='true'))


def _playback(h, env):
    """Ask Kani for the concrete values of the counterexample."""
    cmd = ['cargo', 'kani', '--target-dir', TARGET, '-Z', 'function-contracts', '-Z', 'stubbing', '-Z', 'concrete-playback',
           '--concrete-playback=print', '--harness', h['name']]
    try:
        p = subprocess.run(cmd, cwd=SCRATCH, env=env, capture_output=True, text=True, timeout=300)
    except subprocess.TimeoutExpired:
        return None
    out = p.stdout + p.stderr
    m = re.search(r'```\n(.*?#\[test\].*?)```', out, re.S)
    if not m:
        m = re.search(r'(#\[test\]\s*fn kani_concrete_playback.*?\n\})', out, re.S)
    if not m:
        return None
    test = m.group(1)
    vals = re.findall(r'//\s*(-?[0-9a-fx]+(?:[ui](?:8|16|32|64|size))?)\s*\n\s*vec!\[([0-9, ]*)\]', test)
    return {'kind': 'kani-concrete-playback', 'harness': h['name'], 'unit_test': test[:4000],
            'values': [{'value': a, 'bytes_le': b} for a, b in vals]}
