#!/usr/bin/env python3
"""Write units/synclib/unit.vx: the generated work() / eof() / new() of IN-CRATE derive users, cut from the macro
expansion of the rustradio library itself (`@expanded/lib`).

Same generated text as unit syncx verifies for the hook blocks, now for the real blocks: what is proved here is
everything that does not depend on the kernel's values -- step accounting, clamp, wait target, tag transfer, call-site
preconditions of consume / produce, the generated assertions.  The kernels (process_sync) are signatures only here
(external_body, frame clause trusted for `&mut self` kernels); several of them are under contract in unit kernels."""
import os

VERIF = os.path.dirname(os.path.dirname(os.path.abspath(__file__)))

BLOCKS = [
    dict(name='Tee', generics='<T: Copy>', ins=['src'], outs=['dst1', 'dst2'], mut=False, new=True, attr='#[verifier::reject_recursive_types(T)]'),
    dict(name='FloatToComplex', ins=['re', 'im'], outs=['dst'], mut=False, new=True),
    dict(name='BinarySlicer', ins=['src'], outs=['dst'], mut=False, new=True),
    dict(name='ComplexToMag2', ins=['src'], outs=['dst'], mut=False, new=True),
    dict(name='NrziDecode', ins=['src'], outs=['dst'], mut=True, new=True),
    dict(name='Descrambler', ins=['src'], outs=['dst'], mut=True, new=False),
    dict(name='CorrelateAccessCode', ins=['src'], outs=['dst'], mut=True, new=False),
    dict(name='QuadratureDemod', ins=['src'], outs=['dst'], mut=True, new=True),
    dict(name='FastFM', ins=['src'], outs=['dst'], mut=True, new=True),
    dict(name='Xor', generics='<T: Copy + std::ops::BitXor<Output = T>>', ins=['a', 'b'], outs=['dst'], mut=False, new=True, attr='#[verifier::reject_recursive_types(T)]'),
    dict(name='XorConst', generics='<T: Copy + std::ops::BitXor<Output = T>>', ins=['src'], outs=['dst'], mut=True, new=True, attr='#[verifier::reject_recursive_types(T)]'),
    dict(name='MultiplyConst', generics='<T: Copy + std::ops::Mul<Output = T>>', ins=['src'], outs=['dst'], mut=False, new=True, attr='#[verifier::reject_recursive_types(T)]'),
    dict(name='Add', generics='<Ta: Copy + std::ops::Add<Tb, Output = Tout>, Tb: Copy, Tout: Copy>', targs='<Ta, Tb, Tout>', ins=['a', 'b'], outs=['dst'], mut=False, new=True, attr='#[verifier::reject_recursive_types(Ta)]~#[verifier::reject_recursive_types(Tb)]~#[verifier::reject_recursive_types(Tout)]'),
    dict(name='BurstTagger', generics='<T: Copy>', ins=['src', 'trigger'], outs=['dst'], mut=True, new=True, mode='sync_tag', attr='#[verifier::reject_recursive_types(T)]'),
    dict(name='CorrelateAccessCodeTag', ins=['src'], outs=['dst'], mut=True, new=False, mode='sync_tag'),
    dict(name='AddConst', generics='<T: Copy + std::ops::Add<Output = T>>', ins=['src'], outs=['dst'], mut=False, new=True, attr='#[verifier::reject_recursive_types(T)]'),
]

HEAD = '''//@unit synclib props=C08,C09,C12,C15,C19 rules=VIS,ATTR,XPAND,SYNCLOOP,BURST,TAGNEW,WIN,RET
// Unit U-synclib: the derive-generated work() / eof() / new() of in-crate blocks, cut from rustc's macro expansion of the
// rustradio library (vx/expand.py), against the stream contract.  Written by vx/mksynclib.py.  Kernels (process_sync)
// are signatures only.
use vstd::prelude::*;
verus! {
type Float = f32;
//@include stream_prelude.vx

//@include syncx_prelude.vx

#[verifier::external_body]
#[derive(Clone, Copy)]
struct Complex { _p: usize }
/// src/lfsr.rs (under contract in the Kani group lfsr)
#[verifier::external_body]
struct Lfsr { _p: usize }
'''


def section(b):
    nm = b['name']
    lo = nm.lower()
    ins, outs = b['ins'], b['outs']
    gen = b.get('generics', '')
    targs = b.get('targs', '<T>' if gen else '')
    L = []
    A = L.append
    A('')
    A('// ============================================================ %s: %d input(s), %d output(s)' % (nm, len(ins), len(outs)))
    A('//@cut struct @expanded/lib %s%s' % (nm, (' attr=' + b['attr']) if b.get('attr') else ''))
    frame = ' && '.join('final(self).%s@ == old(self).%s@' % (f, f) for f in ins + outs)
    A('impl%s %s%s {' % (gen, nm, targs))
    tagmode = b.get('mode') == 'sync_tag'
    if tagmode:
        # the user wrote process_sync_tags: signature only here (its tag rule is the kernel's business, unit kernels)
        A('//@cut fn @expanded/lib %s::process_sync_tags' % nm)
        A('//@sigonly')
        A('//@ensures')
        A('//  %s,' % frame)
        A('//@end')
    else:
        A('//@cut fn @expanded/lib %s::process_sync' % nm)
        A('//@sigonly')
        if b['mut']:
            A('//@ensures')
            A('//  %s,' % frame)
        A('//@end')
        A('//@cut fn @expanded/lib %s::process_sync_tags' % nm)
        A('//@ret r')
        A('//@ensures')
        A('//  [C19+C12.%s.sync-mode-forwards-the-tags-of-the-first-input] cow_views(r.%d) == views(%s_tag@),' % (lo, len(outs), ins[0]))
        A('//  [C19.%s.tag-processing-leaves-the-streams-alone] %s,' % (lo, frame))
        A('//@end')
    tsrc = ins[0]
    n_expr = 'final(self).%s@.consumed.len() - old(self).%s@.consumed.len()' % (ins[0], ins[0])
    A('//@cut fn @expanded/lib Block@%s::work' % nm)
    A('//@ret r')
    A('//@attr #[verifier::exec_allows_no_decreases_clause]')
    A('//@attr #[verifier::loop_isolation(false)]')
    A('//@requires')
    A('//  ' + ', '.join(['rs_wf(old(self).%s@)' % f for f in ins] + ['ws_wf(old(self).%s@)' % f for f in outs]) + ',')
    A('//@ensures')
    moved = ' && '.join(['took(old(self).%s@, final(self).%s@, n)' % (f, f) for f in ins] + ['gave(old(self).%s@, final(self).%s@, n)' % (f, f) for f in outs])
    A('//  [C19+C08.%s.one-sample-from-every-input-and-to-every-output-per-step] r is Ok && r->Ok_0 is Again ==> ({ let n = %s; n >= 1 && %s }),' % (lo, n_expr, moved))
    exhausted = ' || '.join(['final(self).%s@.pending.len() == 0' % f for f in ins] + ['final(self).%s@.space == 0' % f for f in outs])
    A('//  [C19+C08.%s.exactly-min-of-shortest-input-and-smallest-space-steps] r is Ok && r->Ok_0 is Again ==> %s,' % (lo, exhausted))
    for o in ([] if tagmode else outs):
        A('//  [C19+C12.%s.tags-travel-with-their-samples-to-output-%s] r is Ok && r->Ok_0 is Again ==> final(self).%s@.tags == old(self).%s@.tags + shift_tags(final(self).%s@.ctags.skip(old(self).%s@.ctags.len() as int), old(self).%s@.produced.len() - old(self).%s@.consumed.len()),'
          % (lo, o, o, o, tsrc, tsrc, o, tsrc))
    waits = ' || '.join(['(s@.id == final(self).%s@.id && final(self).%s@.pending.len() == 0)' % (f, f) for f in ins]
                        + ['(s@.id == final(self).%s@.id && final(self).%s@.space == 0)' % (f, f) for f in outs])
    A('//  [C19+C09.%s.waits-on-a-stream-that-is-empty-or-full] r is Ok ==> (match r->Ok_0 { BlockRet::WaitForStream(s, need) => need == 1 && (%s), BlockRet::Again => true, _ => false }),' % (lo, waits))
    idle = ' && '.join(['idle_r(old(self).%s@, final(self).%s@)' % (f, f) for f in ins] + ['idle_w(old(self).%s@, final(self).%s@)' % (f, f) for f in outs])
    A('//  [C19+C09.%s.nothing-moves-unless-a-step-was-made] !(r is Ok && r->Ok_0 is Again) ==> %s,' % (lo, idle))
    if tagmode:
        A('//@after let empty_tags')
        for f in ins + outs:
            A('//  let ghost s_%s = self.%s@;' % (f, f))
        for f in outs:
            A('//  let ghost w_%s = %s@;' % (f, f))
        framei = ', '.join('self.%s@ == s_%s' % (f, f) for f in ins + outs)
        A('//@loop 1')
        A('//  invariant')
        A('//      pos <= __steps, __steps == n,')
        A('//      1 <= n, // [C19+C09.%s.a-call-that-gets-this-far-makes-at-least-one-step]' % lo)
        for f in ins + outs:
            A('//      n <= %s@.data.len(), // [C19+C09.%s.the-step-count-fits-every-window]' % (f, lo))
        A('//      %s,' % ', '.join('%s@.sid == w_%s.sid, %s@.data.len() == w_%s.data.len()' % (f, f, f, f) for f in outs))
        A('//      %s,' % framei)
        A('//      forall|i: int| 0 <= i < views(otags@).len() ==> 0 <= (#[trigger] views(otags@)[i]).pos < pos, // [C19+C12.%s.every-tag-is-attached-to-the-step-it-was-produced-in]' % lo)
        for k in (2, 3):
            A('//@loop %d' % k)
            A('//  invariant')
            A('//      __i <= __ts@.len(), pos < n,')
            A('//      forall|i: int| 0 <= i < views(otags@).len() ==> 0 <= (#[trigger] views(otags@)[i]).pos <= pos,')
            A('//      %s,' % framei)
            A('//@loopstart %d' % k)
            A('//  let ghost ot0 = views(otags@);')
            A('//@loopend %d' % k)
            A('//  proof {')
            A('//      let e = TagView { pos: pos as int, id: __ts@[__i - 1]@.id };')
            A('//      assert(views(otags@) =~= ot0.push(e));')
            A('//  }')
        A('//@before self.%s.consume' % ins[0])
        A('//  proof {')
        A('//      assert forall|i: int| 0 <= i < otags@.len() implies 0 <= (#[trigger] otags@[i])@.pos < n by { assert(otags@[i]@ == views(otags@)[i]); }')
        A('//  }')
    else:
        A('//@after let empty_tags')
        A('//  let ghost atv = views(%s_tag@);' % tsrc)
        for f in ins + outs:
            A('//  let ghost s_%s = self.%s@;' % (f, f))
        for f in outs:
            A('//  let ghost w_%s = %s@;' % (f, f))
        A('//  proof {')
        A('//      lemma_abs_sorted(atv, s_%s.consumed.len() as int);' % tsrc)
        A('//      assert forall|i: int| 0 <= i < atv.len() implies 0 <= (#[trigger] atv[i]).pos by { assert(atv[i] == %s_tag@[i]@); }' % tsrc)
        A('//      lemma_tv_lt_zero(atv);')
        A('//  }')
        framei = ', '.join('self.%s@ == s_%s' % (f, f) for f in ins + outs)
        A('//@loop 1')
        A('//  invariant')
        A('//      pos <= __steps, __steps == n,')
        A('//      1 <= n, // [C19+C09.%s.a-call-that-gets-this-far-makes-at-least-one-step]' % lo)
        for f in [f for f in ins + outs]:
            A('//      n <= %s@.data.len(), // [C19+C09.%s.the-step-count-fits-every-window]' % (f, lo))
        A('//      %s,' % ', '.join('%s@.sid == w_%s.sid, %s@.data.len() == w_%s.data.len()' % (f, f, f, f) for f in outs))
        A('//      %s,' % framei)
        A('//      atv == views(%s_tag@), pos_sorted(atv),' % tsrc)
        # all the fast path needs: it is taken only when the tags that reach the outputs are absent (how the generated code
        # decides that is its business)
        A('//      empty_tags ==> atv.len() == 0, // [C19+C12.%s.the-tag-free-fast-path-is-taken-only-without-tags]' % lo)
        A('//      views(otags@) == tv_lt(atv, pos as int), // [C19+C12.%s.tags-are-collected-position-by-position]' % lo)
        A('//@loop 2')
        A('//  invariant')
        A('//      __i <= __ts@.len(), __ts@.len() == 0, views(otags@) == tv_lt(atv, pos as int),')
        A('//      %s,' % framei)
        A('//@loop 3')
        A('//  invariant')
        A('//      __i <= __ts@.len(), pos < n,')
        A('//      views(otags@) == tv_lt(atv, pos as int) + at_pos(views(__ts@).take(__i as int), pos as int),')
        A('//      %s,' % framei)
        A('//@loopstart 3')
        A('//  let ghost ot0 = views(otags@);')
        A('//@loopend 3')
        A('//  proof {')
        A('//      let e = TagView { pos: pos as int, id: __ts@[__i - 1]@.id };')
        A('//      assert(views(otags@) =~= ot0.push(e));')
        A('//      assert(views(__ts@)[__i - 1] == __ts@[__i - 1]@);')
        A('//      assert(views(__ts@).take(__i as int) =~= views(__ts@).take(__i - 1).push(views(__ts@)[__i - 1]));')
        A('//      assert(at_pos(views(__ts@).take(__i as int), pos as int) =~= at_pos(views(__ts@).take(__i - 1), pos as int).push(e));')
        A('//      assert(views(otags@) =~= tv_lt(atv, pos as int) + at_pos(views(__ts@).take(__i as int), pos as int));')
        A('//  }')
        A('//@after let __ts#1')
        A('//  proof { assert(views(__ts@).len() == __ts@.len()); assert(cow_views(ts).len() == 0); }')
        A('//@after while __i#1')
        A('//  proof {')
        A('//      if atv.len() == 0 { assert(tv_eq(atv, pos as int) =~= Seq::<TagView>::empty()); }')
        A('//      assert(tv_eq(atv, pos as int).len() == 0);')
        A('//      assert(tv_lt(atv, pos as int) + tv_eq(atv, pos as int) =~= tv_lt(atv, pos as int));')
        A('//      assert(views(otags@) == tv_lt(atv, pos as int) + tv_eq(atv, pos as int));')
        A('//  }')
        A('//@after while __i#2')
        A('//  proof {')
        A('//      assert(views(__ts@).take(__ts@.len() as int) =~= views(__ts@));')
        A('//      lemma_at_pos_back(atv, pos as int);')
        A('//      assert(views(otags@) == tv_lt(atv, pos as int) + tv_eq(atv, pos as int));')
        A('//  }')
        A('//@before pos += 1')
        A('//  proof {')
        A('//      lemma_tv_step(atv, pos as int);')
        A('//      assert(views(otags@) == tv_lt(atv, pos + 1));')
        A('//  }')
        A('//@before self.%s.consume' % ins[0])
        A('//  proof {')
        A('//      lemma_tv_lt_in(atv, n as int);')
        A('//      assert forall|i: int| 0 <= i < otags@.len() implies 0 <= (#[trigger] otags@[i])@.pos < n by { assert(otags@[i]@ == views(otags@)[i]); }')
        for f in outs:
            A('//      lemma_sync_tags_moved(atv, s_%s.consumed.len() as int, s_%s.produced.len() as int, n as int);' % (tsrc, f))
        A('//  }')
    A('//@end')
    A('//@cut fn @expanded/lib BlockEOF@%s::eof' % nm)
    A('//@ret r')
    A('//@ensures')
    A('//  [C19.%s.end-of-input-only-when-every-input-has-ended-and-is-drained] r ==> (%s),' % (lo, ' && '.join('old(self).%s.ended()' % f for f in ins)))
    A('//@end')
    if b['new']:
        A('//@cut fn @expanded/lib %s::new' % nm)
        A('//@ret r')
        A('//@ensures')
        A('//  [C19.%s.new-wires-the-inputs-it-was-given] %s,' % (lo, ' && '.join('r.0.%s@ == %s@' % (f, f) for f in ins)))
        A('//  [C19.%s.new-returns-the-read-ends-in-declaration-order] %s,' % (lo, ' && '.join('r.0.%s@.id == r.%d@.id' % (f, j + 1) for j, f in enumerate(outs))))
        A('//  [C19.%s.new-streams-are-fresh] %s,' % (lo, ' && '.join('ws_wf(r.0.%s@) && rs_wf(r.%d@) && r.0.%s@.produced.len() == 0 && r.%d@.pending.len() == 0' % (f, j + 1, f, j + 1) for j, f in enumerate(outs))))
        A('//@end')
    A('}')
    return L


def main():
    out = HEAD.split('\n')
    for b in BLOCKS:
        out += section(b)
    out += ['} // verus!', 'fn main() {}', '']
    os.makedirs(os.path.join(VERIF, 'units', 'synclib'), exist_ok=True)
    p = os.path.join(VERIF, 'units', 'synclib', 'unit.vx')
    open(p, 'w').write('\n'.join(out))
    print('wrote', p, len(out), 'lines')


if __name__ == '__main__':
    main()
