#!/bin/sh
# findings_check.sh [rev] -- run every reproducer under findings/tests against a revision of /repo (default HEAD); every
# fixed defect's reproducer must pass, f11 (known finding, not fixed) is expected to fail.
REV=${1:-HEAD}
for t in /verif/findings/tests/*.rs; do
  n=$(basename $t .rs)
  r=$(sh /verif/vx/repro.sh $t $REV 2>&1 | grep "^test result" | head -1)
  echo "$n: $r"
done
