#!/usr/bin/env python3
"""check <property> [--tier quick|thorough] [--replay FILE]

Runs the verification units a property depends on against /repo's current working tree,
classifies every failed obligation, writes /verif/evidence/<id>.json, and prints
VIOLATION / KNOWN-FINDING / UNDECIDED lines as DESIGN.md section 7 prescribes.
Exit 0: every obligation for the property discharged (or is a listed finding);
exit 1: a VIOLATION line was printed; exit 2: undecided (never an alarm).
"""
import argparse
import concurrent.futures as cf
import json
import os
import sys
import time

HERE = os.path.dirname(os.path.abspath(__file__))
sys.path.insert(0, HERE)
import vrun   # noqa: E402
import props as PROPS  # noqa: E402

VERIF = os.path.dirname(HERE)
REPO = os.environ.get('VERIF_REPO', '/repo')


def load_findings():
    p = os.path.join(VERIF, 'known_findings.json')
    if not os.path.exists(p):
        return {'findings': [], 'fixed': []}
    return json.load(open(p))


def finding_for(kf, prop, item):
    for f in kf.get('findings', []):
        if f.get('property') != prop:
            continue
        if f.get('unit') == item['unit'] and f.get('function') == item['fn'] and item['label'] in f.get('labels', [f.get('label')]):
            return f
    return None


BX_WHY = {
    'bx:sync': 'no verifier in reach (proc-macro generated code); bounded drip-feed check of the real code',
    'bx:auenc': 'AuEncode::work (float quantisation loop writing through sub-slices of the write window) is not under a Verus '
                'contract yet; bounded check of the real code: header then big-endian PCM16 for every schedule tried',
    'bx:il2p': 'Il2pDeframer::work (owned Vec moved through an enum with mem::swap, String-building header parser) is not under a '
               'Verus contract; bounded check of the real code: same number of headers one-shot and drip-fed on random bits '
               'with sync tags, never a panic (bits only: a byte > 1 is known finding F11)',
    'bx:rtlsdr': 'the byte -> float conversion inside RtlSdrDecode::work is a closure in an iterator chain (an uninterpreted function in '
                 'unit rtlsdr, which proves that output k depends on bytes 2k, 2k+1 only); this run pushes EVERY byte value through the '
                 'real code as I and as Q and compares bit-exactly with (b - 127) * 0.008: exhaustive over the value domain, bounded '
                 'over schedules',
    'bx:totext': 'ToText::work walks a Vec of input streams with iter_mut(), a labelled break with a value and String formatting: outside '
                 'the extractable subset; bounded differential check of the real code (same text one-shot and drip-fed over two inputs)',
    'bx:kernels': 'the LFSR steps are proved over their full domain (kani:lfsr) and the kernels in unit kernels, but what a block is BUILT with is '
                  'constructor code (Descrambler::new_g3ruh, the correlators\' zeroed window) outside every contract: bounded check of the '
                  'real blocks against per-sample references (G3RUH: out[t] = in[t] ^ in[t-12] ^ in[t-17] through both constructors)',
    'bx:dsp': 'floating-point blocks: no verifier here has a float theory and most of these bodies are iterator/FFT code; bounded '
              'differential check of the real code (a roomy run and an adversarial drip-fed run of the same input must give '
              'bit-identical output; one-to-one blocks must deliver each tag once at the same index)',
}


ENV_CLAUSES = {
    'C08+C10.delay.no-input-before-the-delay-is-complete',
    'C09.window-not-stale',
}


def proof_level(f):
    """An obligation of the proof script, not of the contract (see the use in main)."""
    if f.get('labelled') or f.get('kind') in ('bounded-contract-check', 'compile'):
        return False
    if f['kind'] in ('invariant', 'decreases'):
        return True
    return f['kind'] in ('overflow', 'divzero', 'shift', 'assert', 'recommends') and bool(f.get('in_loop'))


def default_tag():
    """Generated files are named <unit><tag>.rs.  Two checks of different properties may run at the same time and share
    units, so the property id is part of the name (VERIF_TAG overrides it for scratch runs)."""
    return os.environ.get('VERIF_TAG') or ('_' + CURRENT_PROP.lower() if CURRENT_PROP else '')


CURRENT_PROP = ''


def run_units(units, tier):
    results = {}
    kani_units = []
    with cf.ThreadPoolExecutor(max_workers=8) as ex:
        futs = {}
        for u in units:
            if u.startswith('bx:'):
                import bx as _bx
                futs[ex.submit(_bx.run, [u[3:]], REPO, None, (400 if tier == 'thorough' else None), int(os.environ.get('VERIF_SEED', '0') or 0))] = u
            elif u.startswith('kani:'):
                kani_units.append(u)
            else:
                futs[ex.submit(vrun.run_unit, u, REPO, None, True, (), default_tag())] = u
        kf = None
        if kani_units:
            import kx
            kf = ex.submit(kx.run_groups, [u[5:] for u in kani_units], REPO, tier)
        for f in cf.as_completed(futs):
            results[futs[f]] = f.result()
        if kf is not None:
            for g, r in kf.result().items():
                results['kani:' + g] = r
    return results


def confirm_failures(unit, res):
    """Re-run a failing Verus unit once with a doubled resource limit; an obligation that does not
    fail again is undecided, not violated."""
    r2 = vrun.run_unit(unit, REPO, rlimit=2 * vrun.DEFAULT_RLIMIT, tag=default_tag() + '_confirm')
    if r2.status == 'undecided':
        return res.failures, []
    again = {(f['fn'], f['label']) for f in r2.failures}
    keep = [f for f in res.failures if (f['fn'], f['label']) in again]
    flaky = [f for f in res.failures if (f['fn'], f['label']) not in again]
    return keep, flaky


def main():
    ap = argparse.ArgumentParser()
    ap.add_argument('prop')
    ap.add_argument('--tier', default=os.environ.get('VERIF_TIER', 'quick'))
    ap.add_argument('--replay')
    a = ap.parse_args()
    prop = a.prop
    tier = a.tier if a.tier in ('quick', 'thorough') else 'quick'
    seed = int(os.environ.get('VERIF_SEED', '0') or 0)
    if prop not in PROPS.P:
        print('UNDECIDED property=%s reason=not-claimed (see MANIFEST.json not_applicable)' % prop)
        return 2
    if a.replay:
        import replay
        return replay.run(prop, a.replay, REPO)
    global CURRENT_PROP
    CURRENT_PROP = prop
    spec = PROPS.P[prop]
    t0 = time.time()
    results = run_units(spec['units'], tier)
    kf = load_findings()
    undecided = []
    violations = []
    known = []
    flaky_all = []
    obligations = 0
    discharged = 0
    known_ob = 0
    functions = []
    samples = []
    trusted = []
    rule_log = []
    cuts = []
    cmds = []
    bounded = []
    smt_ms = 0
    import bx
    import finder
    for uname in spec['units']:
        r = results[uname]
        if uname.startswith('bx:'):
            # BOUNDED-ONLY stand-in for code no verifier here can take (derive-generated work()): never counted as proved
            bounded.append({'unit': uname, 'bounded': True, 'why': BX_WHY.get(uname, 'no verifier in reach; bounded check of the real code'),
                            'stats': r.stats, 'status': r.status, 'cmd': r.cmd})
            cmds.append(r.cmd)
            if r.status == 'undecided':
                undecided.append('%s: %s' % (uname, r.reason[:200]))
            for b in r.fails:
                if prop in finder.props_of(b):
                    f = {'unit': 'bounded:' + uname[3:], 'fn': b.get('target'), 'label': b.get('label'), 'kind': 'bounded-contract-check',
                         'props': finder.props_of(b), 'message': b.get('what'), 'src': None, 'stmt': '', 'rendered': str(b),
                         'counterexample': {'kind': 'bounded-harness', 'harness': bx.UNIT_HARNESS[uname[3:]][0], 'failure': b, 'cmd': r.cmd}}
                    k = finding_for(kf, prop, f)
                    (known if k else violations).append((f, k, r))
            continue
        def bounded_standin(reason):
            """The verifier could not decide this unit (restructured function / proof script does not fit).  Stand-in: a
            BOUNDED check of the same contract on the real code.  A divergence is a violation with a concrete input; no
            divergence leaves the property undecided (a bounded run proves nothing)."""
            if uname not in bx.UNIT_HARNESS:
                undecided.append('%s: %s' % (uname, reason))
                return
            br = bx.run([uname], REPO, seed=seed)
            bounded.append({'unit': uname, 'bounded': True, 'why': 'verifier could not reach: ' + reason[:200],
                            'harness': bx.UNIT_HARNESS[uname][0], 'stats': br.stats, 'status': br.status, 'cmd': br.cmd})
            cmds.append(br.cmd)
            for b in br.fails:
                if prop in finder.props_of(b):
                    f = {'unit': 'bounded:' + uname, 'fn': b.get('target'), 'label': b.get('label'), 'kind': 'bounded-contract-check',
                         'props': finder.props_of(b), 'message': b.get('what'), 'src': None, 'stmt': '', 'rendered': str(b),
                         'counterexample': {'kind': 'bounded-harness', 'harness': bx.UNIT_HARNESS[uname][0], 'failure': b, 'cmd': br.cmd}}
                    k = finding_for(kf, prop, f)
                    (known if k else violations).append((f, k, br))
                    return
            undecided.append('%s: %s (bounded stand-in %s: %s)' % (uname, reason, bx.UNIT_HARNESS[uname][0],
                             'no divergence found' if br.status == 'ok' else br.status + ' ' + br.reason[:100]))

        if r.status == 'undecided':
            extraction = any(r.reason.startswith(x) for x in ('lost anchor', 'verus/rustc error', 'rule engine', 'extractor error'))
            if extraction:
                bounded_standin(r.reason)
            else:
                undecided.append('%s: %s' % (uname, r.reason))
            continue
        fails = [f for f in r.failures if prop in (f['props'] or [])]
        if fails and not uname.startswith('kani:'):
            fails, flaky = confirm_failures(uname, r)
            fails = [f for f in fails if prop in (f['props'] or [])]
            flaky_all += [f for f in flaky if prop in (f['props'] or [])]
            # An unlabelled `assert` inside a spliced proof block is a HINT for the solver, not a contract clause.  When
            # hints are all that fails, the proof script no longer fits the (restructured) code: that is undecided, not a
            # violation -- but not OK either, since Verus assumes a failed assert afterwards.  When contract clauses fail
            # too, those are what is reported.
            hints = [f for f in fails if f['kind'] == 'assert' and (f['label'] or '').endswith('.assert')]
            if hints and len(hints) == len(fails):
                bounded_standin('proof hints do not fit the code any more: ' + '; '.join(sorted({(h.get('stmt') or '')[:80] for h in hints}))[:300])
                continue
            fails = [f for f in fails if f not in hints]
            # The same goes for the other obligations that belong to the PROOF rather than to the contract: unlabelled loop
            # invariants and termination measures, and unlabelled arithmetic / index obligations inside a loop body.  A
            # behaviour-preserving edit (a field read hoisted into a local, say) can make them fail because the invariants no
            # longer carry a fact the loop body needs, while every contract clause still holds (Verus assumes a failed
            # invariant after the loop).  When they are all that fails, the bounded stand-in decides: a divergence on the real
            # code is a violation with a concrete input, none leaves the property undecided.  Units without a stand-in keep
            # reporting them as violations (there is no second opinion to ask).
            proofish = [f for f in fails if proof_level(f)]
            if proofish and len(proofish) == len(fails) and uname in bx.UNIT_HARNESS:
                bounded_standin('only proof-level obligations fail (loop invariants / arithmetic inside loops): ' +
                                '; '.join(sorted({'%s %s' % (h['fn'], h['kind']) for h in proofish}))[:300])
                continue
            if len(proofish) < len(fails):
                fails = [f for f in fails if f not in proofish]
        ob, dis, fl, sm = r.account(prop) if hasattr(r, 'account') else account_verus(r, prop)
        # obligations listed as known findings are reported separately (coverage.known_finding_obligations) and are
        # not part of what this run claims to have proved
        n_known = len({(f['fn'], f['label']) for f in fails if finding_for(kf, prop, f)})
        known_ob += n_known
        obligations += ob - n_known
        discharged += max(0, ob - len({(f['fn'], f['label']) for f in fails}) - len(flaky_all))
        functions += fl
        samples += sm
        for t in r.trusted:
            if t not in trusted:
                trusted.append(t)
        rule_log += getattr(r, 'rule_log', [])
        cuts += getattr(r, 'cuts', [])
        cmds.append(r.verus_cmd if hasattr(r, 'verus_cmd') else r.cmd)
        bounded += getattr(r, 'bounded', [])
        smt_ms += getattr(r, 'smt_ms', 0)
        # SECOND OPINION.  An obligation that verified on the unchanged tree and fails now is, by itself, only "the proof no
        # longer goes through": bit-vector and nonlinear steps are syntactic (`fcs ^ byte` rewritten as `byte ^ fcs` loses a
        # `by (bit_vector)` hint), a field read hoisted into a local changes what a loop knows.  Measured with behaviour-
        # preserving edits written by sub-agents: 3 of 12 were reported as violations through such obligations, labelled
        # postconditions among them.  So where the unit has a bounded stand-in, a verifier failure is reported as a
        # VIOLATION only together with a divergence the stand-in finds on the REAL code (the replay then carries the
        # concrete input); without one the property is UNDECIDED (exit 2), and the failed obligations are named.  Units
        # without a stand-in (spec-level theorems, kernels) and Kani harnesses (which come with their own counterexample)
        # report as before.  Known findings are matched before this step.
        new_fails = [f for f in fails if not finding_for(kf, prop, f)]
        # Exception: clauses about what the PEER may do between two statements of one work() call (a consumer freeing output
        # space, a window made stale by another acquisition).  No single-threaded stand-in can produce that interleaving --
        # it is exactly what the universally quantified environment of the stream contract adds over any harness (defect
        # F05d was found this way and only reproduced with a two-thread stress test) -- so these are reported on the
        # verifier's word, as the brief's minimum allows.
        env_fails = [f for f in new_fails if f['label'] in ENV_CLAUSES]
        if env_fails:
            new_fails = []
        if new_fails and not uname.startswith('kani:') and uname in bx.UNIT_HARNESS and not any(f.get('counterexample') for f in new_fails):
            br = bx.run([uname], REPO, seed=seed)
            bounded.append({'unit': uname, 'bounded': True, 'why': 'second opinion on %d failed obligation(s) of the verifier' % len(new_fails),
                            'harness': bx.UNIT_HARNESS[uname][0], 'stats': br.stats, 'status': br.status, 'cmd': br.cmd})
            cmds.append(br.cmd)
            div = [b for b in br.fails if prop in finder.props_of(b)] or list(br.fails)
            if div:
                cex = {'kind': 'bounded-harness', 'harness': bx.UNIT_HARNESS[uname][0], 'failure': div[0], 'cmd': br.cmd}
                for f in new_fails:
                    f['counterexample'] = cex
            else:
                undecided.append('%s: %d obligation(s) fail in the verifier (%s) but the bounded stand-in %s finds no divergence on the real code%s: '
                                 'not reported as a violation' % (uname, len(new_fails),
                                 '; '.join(sorted({'%s::%s' % (f['fn'], f['label']) for f in new_fails}))[:400], bx.UNIT_HARNESS[uname][0],
                                 '' if br.status == 'ok' else ' (%s %s)' % (br.status, br.reason[:80])))
                fails = [f for f in fails if f not in new_fails]
        seen_ob = set()
        for f in fails:
            if (f['fn'], f['label']) in seen_ob:
                continue
            seen_ob.add((f['fn'], f['label']))
            k = finding_for(kf, prop, f)
            (known if k else violations).append((f, k, r))
    if tier == 'thorough':
        bunits = [u for u in spec['units'] if u in bx.UNIT_HARNESS and not u.startswith('bx:') and results[u].status != 'undecided']
        if bunits:
            br = bx.run(bunits, REPO, seed=seed, n=400, depth=6, timeout=1800)
            bounded.append({'units': bunits, 'bounded': True, 'why': 'thorough tier: cross-check of the contracts on the compiled code',
                            'stats': br.stats, 'status': br.status, 'cmd': br.cmd})
            cmds.append(br.cmd)
            if br.status == 'undecided':
                undecided.append('bounded cross-check: ' + br.reason[:200])
            for b in br.fails:
                if prop in finder.props_of(b):
                    f = {'unit': 'bounded:' + [u for u in bunits if bx.UNIT_HARNESS[u][1] == b.get('target')][0], 'fn': b.get('target'), 'label': b.get('label'),
                         'kind': 'bounded-contract-check', 'props': finder.props_of(b), 'message': b.get('what'), 'src': None, 'stmt': '',
                         'rendered': str(b), 'counterexample': {'kind': 'bounded-harness', 'failure': b, 'cmd': br.cmd}}
                    if not any(v[0]['label'] == f['label'] for v in violations):
                        k = finding_for(kf, prop, f)
                        (known if k else violations).append((f, k, br))
    wall = time.time() - t0
    # ------------------------------------------------------------- evidence
    ev = {
        'property_id': prop, 'tier': tier, 'seed': seed, 'level': 'proof',
        'coverage': {
            'obligations': obligations, 'discharged': discharged,
            'checker_cmd': ' && '.join(c for c in cmds if c),
            'trusted_base': trusted,
            'samples': samples[:12],
            'functions_under_contract': functions,
            'units': spec['units'],
            'back_ends': spec.get('back_ends', 'Verus 0.2026.09.13 / Z3 (vx); Kani 0.68 / CBMC 6.11 (kx)'),
            'solver_time_ms': smt_ms,
            'extraction_rule_applications': len(rule_log),
            'extraction_rules': rule_log[:400],
            'items_cut_from_repo': cuts,
            'bounded_items': bounded,
            'not_covered': spec.get('not_covered', []),
            'known_findings_reported': [k['label'] for _, k, _ in known],
            'known_finding_obligations': known_ob,
            'undecided': undecided + ['unstable obligation (not reproduced on re-run): %s %s' % (f['fn'], f['label']) for f in flaky_all],
            'exhaustive': False,
            'explanation': spec.get('explanation', ''),
        },
        'assumptions': spec.get('assumptions', []) + PROPS.COMMON_ASSUMPTIONS,
        'wall_s': round(wall, 2),
        'violations': len(violations),
    }
    evdir = os.path.join(os.environ.get('VERIF_BUILD') or os.path.join(VERIF, 'build'), 'evidence-scratch') if os.environ.get('VERIF_NOEVIDENCE') else os.path.join(VERIF, 'evidence')
    os.makedirs(evdir, exist_ok=True)
    with open(os.path.join(evdir, prop + '.json'), 'w') as f:
        json.dump(ev, f, indent=1)
    # ------------------------------------------------------------- report
    for f, k, r in known:
        print('KNOWN-FINDING: property=%s %s %s %s' % (prop, f['fn'], f['label'], k.get('what', '')))
    rc = 0
    if violations:
        import replay
        seen_v = set()
        for f, _k, r in violations:
            if (f['fn'], f['label']) in seen_v:
                continue
            seen_v.add((f['fn'], f['label']))
            path, found = replay.write(prop, f, r, REPO, tier)
            print('VIOLATION property=%s replay=%s obligation=%s::%s%s' % (
                prop, path, f['fn'], f['label'], '' if found else ' no-failing-input-found'))
        rc = 1
    if undecided or flaky_all:
        for u in undecided:
            print('UNDECIDED property=%s reason=%s' % (prop, u))
        for f in flaky_all:
            print('UNDECIDED property=%s reason=unstable obligation %s %s' % (prop, f['fn'], f['label']))
        if rc == 0:
            rc = 2
    if rc == 0:
        print('OK property=%s obligations=%d discharged=%d known_findings=%d wall=%.1fs' % (
            prop, obligations, discharged, len(known), wall))
    return rc


def account_verus(r, prop):
    """(obligations, discharged-before-failures, functions, samples) relevant to `prop` in a Verus unit."""
    fl = []
    n = 0
    relevant_fns = set()
    times = {}
    for f in r.functions:
        short = f['fn'].split('::', 1)[1] if '::' in f['fn'] else f['fn']
        times[short] = f
    unit_props = None
    for fn, meta in r.fn_meta.items():
        if meta.get('sigonly'):
            continue
        if prop in (meta.get('props') or []):
            relevant_fns.add(fn)
            t = times.get(fn, {})
            fl.append({'function': fn, 'source': '%s:%d' % (meta['path'], meta['line']), 'engine': 'verus/z3',
                       'smt_ms': t.get('time_ms'), 'rlimit': t.get('rlimit'),
                       'clauses': meta['requires'] + meta['ensures'] + meta['invariants']})
            n += 1
    # lemmas (proof fns of the prelude) are charged to every property of the unit
    cut_names = set(r.fn_meta)
    for short, f in times.items():
        base = short.replace('__twin', '')
        if short.endswith('__twin') or base in cut_names:
            continue
        fl.append({'function': short, 'source': 'units/%s/unit.vx (lemma / verified helper)' % r.name,
                   'engine': 'verus/z3', 'smt_ms': f.get('time_ms'), 'rlimit': f.get('rlimit')})
        n += 1
    samples = []
    for c in r.clauses:
        lp = vrun.label_props(c['label'])
        rel = (prop in lp) if lp else (c['fn'] in relevant_fns)
        if rel and c['kind'] in ('ensures', 'invariant'):
            n += 1
            if c['label'] and len(samples) < 40:
                samples.append({'function': c['fn'], 'label': c['label'], 'kind': c['kind'], 'clause': c['text'][:400]})
    return n, n, fl, samples


if __name__ == '__main__':
    sys.exit(main())
