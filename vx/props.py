"""Which units decide which property (DESIGN.md section 6)."""

COMMON_ASSUMPTIONS = [
    'Verus 0.2026.09.13 + Z3 and Kani 0.68 + CBMC 6.11 are sound; usize is 64-bit; overflow checks are on (Cargo.toml)',
    'the extractor (vx): items are cut from /repo by span on every run and rewritten only by the logged X-* rules of DESIGN.md section 4',
    'every external_body / uninterp item listed under coverage.trusted_base is a trusted specification, not proved',
]

P = {}

P['C01'] = {
    'units': ['ring'],
    'technique': 'Verus function contracts + representation invariant on the real circular_buffer.rs functions (mechanically extracted each run)',
    'level_text': 'Deductive proof for all states, sizes and operation arguments (no bound): wf is established by Buffer::new and preserved by produce/consume; window ranges, refusal of oversize commit/consume, readable+writable==capacity and the FIFO/partition/stability lemmas are postconditions or lemmas over those contracts.',
    'level_note': 'Trusted: mmap aliasing (Circ::new/full_buffer, unsafe), Mutex atomicity (lock code dropped by rule X-LOCK), std BTreeMap/sort shims; stream.rs wrappers not under contract.',
    'assumptions': [
        'A-ALIAS: Circ::new / Circ::full_buffer (mmap double mapping, unsafe slice construction) are trusted: window element i is ring[(start+i) % cap]',
        'X-LOCK: each Mutex critical section is atomic; lock/condvar/Arc reference counting are dropped by the extraction (no concurrency claim)',
        'stream.rs wrappers (ReadStream::read_buf, WriteStream::write_buf, new_stream) only delegate to Buffer and are not under contract',
    ],
    'not_covered': ['Circ::new, Circ::full_buffer, Map::* (unsafe / FFI)', 'Buffer::wait_for_read / wait_for_write (condvar)',
                    'BufferReader::slice/iter/consume, BufferWriter::slice/fill_from_iter/produce (delegations through Arc / &mut slices)',
                    'src/stream.rs'],
}
P['C02'] = {
    'units': ['ring'],
    'technique': 'Verus function contracts on Buffer::produce/consume/read_buf over an abstract tag map (BTreeMap shim), inductive loop invariants',
    'level_text': 'Deductive proof for all ring offsets, commit/consume sizes and any number of tags per sample: produce stores each tag on its sample in commit order, consume removes exactly the tags of the consumed samples, read_buf returns every buffered tag exactly once at its window-relative position.',
    'level_note': 'Trusted: BTreeMap range/iteration/entry semantics (TagMap shim), stable sort shim, Tag payload opaque, Mutex atomicity.',
    'assumptions': [
        'TagMap shim = std BTreeMap semantics (range yields exactly the keys within the bounds, iteration ascending and once per key, entry().or_default().push appends)',
        'sort_tags_by_pos shim = std stable sort_by_key; Tag payload (key, value) is an opaque identity preserved by Tag::new(.., t.key(), t.val().clone())',
        'X-LOCK as for C01',
    ],
    'not_covered': ['NCReadStream / NCWriteStream drop tags by design (TODO in source)', 'src/stream.rs wrappers'],
}
