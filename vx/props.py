"""Which units decide which property (DESIGN.md section 6)."""

COMMON_ASSUMPTIONS = [
    'Verus 0.2026.09.13 + Z3 and Kani 0.68 + CBMC 6.11 are sound; usize is 64-bit; overflow checks are on (Cargo.toml)',
    'the extractor (vx): items are cut from /repo by span on every run and rewritten only by the logged X-* rules of DESIGN.md section 4',
    'every external_body / uninterp item listed under coverage.trusted_base is a trusted specification, not proved',
]

P = {}

P['C01'] = {
    'units': ['ring'],
    'technique': 'Verus function contracts + representation invariant on the real circular_buffer.rs functions (mechanically extracted each run)',
    'level_text': 'Deductive proof for all states, sizes and operation arguments (no bound): wf is established by Buffer::new and preserved by produce/consume; window ranges, refusal of oversize commit/consume, readable+writable==capacity and the FIFO/partition/stability lemmas are postconditions or lemmas over those contracts.',
    'level_note': 'Trusted: mmap aliasing (Circ::new/full_buffer, unsafe), Mutex atomicity (lock code dropped by rule X-LOCK), std BTreeMap/sort shims; stream.rs wrappers not under contract.',
    'assumptions': [
        'A-ALIAS: Circ::new / Circ::full_buffer (mmap double mapping, unsafe slice construction) are trusted: window element i is ring[(start+i) % cap]',
        'X-LOCK: each Mutex critical section is atomic; lock/condvar/Arc reference counting are dropped by the extraction (no concurrency claim)',
        'stream.rs wrappers (ReadStream::read_buf, WriteStream::write_buf, new_stream) only delegate to Buffer and are not under contract',
    ],
    'not_covered': ['Circ::new, Circ::full_buffer, Map::* (unsafe / FFI)', 'Buffer::wait_for_read / wait_for_write (condvar)',
                    'BufferReader::slice/iter/consume, BufferWriter::slice/fill_from_iter/produce (delegations through Arc / &mut slices)',
                    'src/stream.rs'],
}
P['C02'] = {
    'units': ['ring'],
    'technique': 'Verus function contracts on Buffer::produce/consume/read_buf over an abstract tag map (BTreeMap shim), inductive loop invariants',
    'level_text': 'Deductive proof for all ring offsets, commit/consume sizes and any number of tags per sample: produce stores each tag on its sample in commit order, consume removes exactly the tags of the consumed samples, read_buf returns every buffered tag exactly once at its window-relative position.',
    'level_note': 'Trusted: BTreeMap range/iteration/entry semantics (TagMap shim), stable sort shim, Tag payload opaque, Mutex atomicity.',
    'assumptions': [
        'TagMap shim = std BTreeMap semantics (range yields exactly the keys within the bounds, iteration ascending and once per key, entry().or_default().push appends)',
        'sort_tags_by_pos shim = std stable sort_by_key; Tag payload (key, value) is an opaque identity preserved by Tag::new(.., t.key(), t.val().clone())',
        'X-LOCK as for C01',
    ],
    'not_covered': ['NCReadStream / NCWriteStream drop tags by design (TODO in source)', 'src/stream.rs wrappers'],
}

P['C13'] = {
    'units': ['hdlc', 'kani:hdlc'],
    'technique': 'Verus contracts (the per-bit HDLC rules as postconditions) on the real HdlcDeframer::update_state / work; Kani/CBMC full-domain proofs of bits2byte and calc_crc+FCSTAB',
    'level_text': 'Automaton + kernels: for every state and every input bit update_state follows the HDLC rules (flag opens a frame, a zero after five ones is discarded, seven ones abort, over-long frames are dropped only beyond max_size bytes, a closing flag re-opens); nothing is emitted unless the buffered bits are whole bytes >= min_size and (checksum on, no bit fixing) the CRC equals the FCS; such a frame IS emitted; never Err or panic; work() feeds every bit of its window. bits2byte for all 256 vectors; calc_crc == bitwise CRC-16/X.25 for all messages of length 1, 2 (thorough 3, 4). The framing-then-deframing round trip is NOT proved.',
    'level_note': 'Complete per stated message length (labelled bounded in evidence); arbitrary-length CRC and the framing state machine (owned Vec swapped through an enum, iterator-built byte vectors) are outside Verus\' subset and Kani cannot run a stream. Kani/CBMC trusted.',
    'not_covered': ['end-to-end round trip deframe(frame(p)) == p (needs an encoder spec and an induction over bit stuffing)', 'find_right_crc (single-bit fixing) is a trusted callee', 'calc_crc for messages longer than 4 bytes'],
    'assumptions': ['find_right_crc contract trusted; spec_crc / spec_byte are tied to calc_crc / bits2byte only through the Kani group', 'chunk independence of HdlcDeframer (C08) is not claimed: the automaton state is carried in self.state and work() applies update_state bit by bit, but no mirror function of the whole automaton is proved'],
}
P['C14'] = {
    'units': ['kani:codecs', 'fsrc', 'tcp', 'au', 'auenc', 'sigmf'],
    'technique': 'Kani/CBMC loop-free full-domain proofs of Sample::{serialize,parse,size} for u8,u32,i32,f32,Complex',
    'level_text': 'Codecs + file source: FileSource::work reassembles exactly the file\'s samples for EVERY segmentation of the byte stream (read() may return any 1..=len bytes, incl. splits inside a sample), repeated `count` times (Verus, stream + reader contract). parse(serialize(x)) is bit-identical to x for every bit pattern (NaN payloads included), serialize(x).len() == size(), parse never errs on size() bytes and serialize(parse(d)) == d for every byte pattern; Complex wire order I then Q, little endian. TcpSource::work likewise for a socket. AuDecode::work: header state machine, then exactly one sample per two payload bytes (no extra or missing samples). SigMF, AuEncode and the sink-then-source file round trip are NOT decided.',
    'level_note': 'Loop-free harnesses over the full input domain are complete proofs. FileSource, TcpSource, SigMFSource, AuEncode/AuDecode use BufReader, sockets, tar, serde_json and iterator chains: outside Verus\' subset; Kani cannot run streams.',
    'not_covered': ['FileSink-then-FileSource round trip as a whole (each half is under contract separately: C17 fsink, C14 fsrc; the link parse(serialize(x)) == x is the Kani group)', 'SigMFSource (recording, archive)', 'AuEncode (float quantisation loop)', 'Sample for String (TODO in source)'],
}

P['C16'] = {
    'units': ['repeat', 'vsrc', 'fsrc', 'sigmf', 'kani:repeat'],
    'technique': 'Verus contracts on Repeat::{finite,infinite,again,done,count} and a history invariant on VectorSource::work over the stream contract; Kani cross-check of Repeat on the compiled code',
    'level_text': 'Deductive proof, no bound: the repeat counter has no precondition on call order and never under/overflows (count < 2^64-1 assumed); VectorSource::work preserves produced == data^count ++ data[..pos] with marker tags exactly once per repetition on its first sample, returns EOF exactly when data^N has been emitted and never for an infinite repeat, for every data length and every write-window length (all consumer schedules). FileSource::work likewise (count whole passes of the file, EOF only when all are out, never for infinite, honours repeat 0). The SigMF source is NOT decided.',
    'level_note': 'Trusted: the stream-API contract of units/stream_prelude.vx (abstracts stream.rs + circular_buffer.rs; Buffer-level facts proved in unit ring), vec!/Vec (vstd), subslice shim. FileSource and SigMFSource (BufReader, tar, serde_json, iterator chains) are outside Verus\' subset.',
    'not_covered': ['SigMFSource::work', 'VectorSourceBuilder, VectorSource::new / set_repeat (constructors establish the invariant by inspection only)'],
    'assumptions': ['A-COUNT: fewer than 2^64-1 repetitions', 'the invariant is established by VectorSource::new (pos 0, count 0, empty output) -- not under contract (calls new_stream)'],
}

_BLOCK_ASSUME = [
    'the stream-API contract of units/stream_prelude.vx is trusted (it abstracts stream.rs + circular_buffer.rs as seen by one block: read_buf returns any extension of the pending input, write_buf any window not shorter than the space already seen); unit ring proves the Buffer-level facts it abstracts',
    'each block invariant is established by the block constructor (fresh streams, initial fields) -- constructors are not under contract (they call new_stream / are macro-generated)',
    'the derive-generated work() loop of sync blocks and everything else the macro generates is NOT verified (C19 n/a)',
]
_NOT_COVERED_BLOCKS = ['derive-generated sync work(): only a BOUNDED drip-feed stand-in (bx:sync: Tee, Add, Xor, AddConst, XorConst), never counted as proved', 'all floating-point blocks (FIR/FFT/Hilbert/IIR/demod/symbol sync/zero crossing/AU/RTL-SDR decode)', 'StreamToPdu', 'HdlcDeframer', 'Il2pDeframer',
                       'ToText', 'FftStream', 'CorrelateAccessCode*', 'BurstTagger', 'Tee/Add/AddConst/MultiplyConst/convert (macro-generated loops)',
                       'Delay::set_delay', 'every derive-generated sync work()']

_BU = ['skip', 'delay', 'vsrc', 'v2s', 'consts', 'resampler', 'rtlsdr', 's2pdu', 'hilbert', 'fftstream', 'fftfilter']
_FIR = ['fir']
P['C08'] = {
    'units': list(_BU) + _FIR + ['zc', 'symsync', 'bx:sync', 'bx:dsp'],
    'technique': 'Verus: each covered work() proved to preserve out.produced == F(in.consumed) under a stream-API contract with a universally quantified environment (any window lengths)',
    'level_text': 'Deductive proof for a stated subset of blocks (Skip, Delay with constructor delay, VectorSource, VecToStream, ConstantSource, NullSink): the invariant dst.produced == F(src.consumed) holds after every work() call for every read-window extension and every write-window length, hence for every chunking and every amount of free output space; every panic site (refuse, overflow, slice bounds, callee preconditions) in those bodies is unreachable. All other blocks are NOT decided.',
    'level_note': 'Subset only; see coverage.not_covered. Trusted: stream-API contract (stream_prelude.vx), std shims. A change in an uncovered block is invisible to this check.',
    'not_covered': _NOT_COVERED_BLOCKS, 'assumptions': _BLOCK_ASSUME,
}
P['C09'] = {
    'units': list(_BU) + _FIR + ['zc', 'symsync', 'sigmf', 'hdlc', 'fsrc', 'fsink', 'tcp', 'au', 'bx:sync', 'bx:dsp'],
    'technique': 'Verus: call-site preconditions of consume/produce (n <= window, window belongs to the stream, not stale) and verdict postconditions on each covered work()',
    'level_text': 'Deductive proof for the same subset: every consume/produce call site stays within its window; WaitForStream(s, need) is returned only when stream s offered fewer than need in this call; Again only from a call that consumed or produced; an empty input window yields a wait on the input. No window escapes work() (windows are moved into consume/produce or dropped; checked syntactically by rule X-WIN).',
    'level_note': 'Subset only. "holds no window after return" is a syntactic check of the extractor, stated as such.',
    'not_covered': _NOT_COVERED_BLOCKS + ['graph.rs / mtgraph.rs handling of the verdicts'], 'assumptions': _BLOCK_ASSUME,
}
P['C10'] = {
    'units': list(_BU) + _FIR + ['kernels', 'kani:lfsr'],
    'technique': 'Verus stream-function invariants (spec function F per block written from its documentation) + Kani full-domain proofs of the LFSR steps',
    'level_text': 'Deductive proof for a stated subset: Skip (drop first k), Delay (d defaults then input), VectorSource (data^repeat), VecToStream (packets concatenated), ConstantSource, NullSink emit exactly F(input) with exact counts; descrambler and IL2P LFSR steps equal their documented recurrences for all register/mask/seed values.',
    'level_note': 'Subset only; float arithmetic blocks, slicer, RTL-SDR decoder, correlators, StreamToPdu, burst tagger, text formatter, FFT framing and the generated per-sample loop are not decided.',
    'not_covered': _NOT_COVERED_BLOCKS, 'assumptions': _BLOCK_ASSUME,
}
P['C12'] = {
    'units': ['ring', 'skip', 'delay', 'vsrc', 'v2s', 'fir', 'hilbert', 'fftfilter', 'kernels', 'bx:sync', 'bx:dsp'],
    'technique': 'Verus: caller-against-callee check of the stream contract tag.pos < n at every produce() call site + tag-transfer clause of each block invariant',
    'level_text': 'Deductive proof for a stated subset: (a) every produce(n, tags) call site in covered bodies establishes tag.pos < n (the precondition Buffer::produce carries in unit ring); (b) dst.tags == G(src tags of consumed samples): identity after the skip for Skip, shift by the delay for Delay, marker tags once per repetition for VectorSource, start/end per packet for VecToStream.',
    'level_note': 'Subset only: FirFilter (/deci), Hilbert, FftFilter, correlator, burst tagger, Tee and macro-generated tag forwarding are not decided.',
    'not_covered': _NOT_COVERED_BLOCKS + ['FirFilter / FftFilter / Hilbert tag forwarding'], 'assumptions': _BLOCK_ASSUME,
}
P['C15'] = {
    'units': ['skip', 'delay', 'v2s', 'fir', 'resampler', 'rtlsdr', 's2pdu', 'hilbert', 'fftstream', 'fftfilter', 'zc', 'symsync', 'sigmf', 'wpcr', 'hdlc', 'tcp', 'au', 'auenc', 'kani:lfsr', 'kani:hdlc', 'kani:codecs', 'bx:dsp'],
    'technique': 'Verus panic-freedom obligations (refuse/overflow/bounds/callee preconditions unreachable for arbitrary sample values) + Kani totality harnesses over all input bytes',
    'level_text': 'Deductive proof for a stated subset: in the covered work() bodies no panic site is reachable for any sample values; bits2byte, calc_crc (lengths 1..2, thorough ..4) and the codecs\' parse never panic for any byte values; the two LFSR steps are checked for every input byte.',
    'level_note': 'Subset only: AuDecode header arithmetic, HdlcDeframer::update_state, wpcr, sigmf, StreamToPdu, symbol sync, zero crossing are not decided.',
    'not_covered': ['wpcr', 'sigmf', 'StreamToPdu', 'SymbolSync', 'ZeroCrossing', 'TcpSource'] , 'assumptions': _BLOCK_ASSUME,
}

P['C17'] = {
    'units': ['fsink'],
    'technique': 'Verus: mode-table postcondition on the real FileSink::new / NoCopyFileSink::new builder chains against a trusted open(2) specification; effect-order invariant (ghost write buffer / file content) on FileSink::work / NoCopyFileSink::work',
    'level_text': 'Both halves, deductively: (1) for every initial path state {absent, regular file with any content} and each mode, the result of the real builder chain equals the documented table; open errors for other states are passed on by `?`. (2) work(): with ghost state (bytes on disk, bytes still in the BufWriter), the file content equals base ++ serialise(consumed samples) and the write buffer is empty whenever work() returns Ok, the file only ever grows and is always a prefix of the serialised stream -- for every window length; same for the packet sink (one line per popped packet).',
    'level_note': 'Trusted: POSIX open(2)/OpenOptions flag semantics and the BufWriter/File append semantics written in units/fsink/unit.vx (write_all buffers or passes on a prefix, flush empties the buffer into the file, nothing rewrites the file). Real SIGKILL behaviour of the kernel page cache is outside any contract.',
    'not_covered': ['directory / unwritable path states beyond "the open error is returned"', 'what the OS does with written-but-unsynced pages on power loss (no fsync in the code; the property only speaks of killing the process)'],
    'assumptions': ['open(2) shim: fails iff (create_new and exists) or (neither create nor create_new and absent); truncate empties; append positions at end', 'File::create == write+create+truncate', 'BufWriter shim as described', 'a serialised sample is 1..64 bytes; cap * 64 fits usize'],
}
