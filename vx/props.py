"""Which units decide which property (DESIGN.md section 6)."""

COMMON_ASSUMPTIONS = [
    'Verus 0.2026.09.13 + Z3 and Kani 0.68 + CBMC 6.11 are sound; usize is 64-bit; overflow checks are on (Cargo.toml)',
    'the extractor (vx): items are cut from /repo by span on every run and rewritten only by the logged X-* rules of DESIGN.md section 4',
    'every external_body / uninterp item listed under coverage.trusted_base is a trusted specification, not proved',
]

P = {}

P['C01'] = {
    'units': ['ring'],
    'technique': 'Verus function contracts + representation invariant on the real circular_buffer.rs functions (mechanically extracted each run)',
    'level_text': 'Deductive proof for all states, sizes and operation arguments (no bound): wf is established by Buffer::new and preserved by produce/consume; window ranges, refusal of oversize commit/consume, readable+writable==capacity and the FIFO/partition/stability lemmas are postconditions or lemmas over those contracts.',
    'level_note': 'Trusted: mmap aliasing (Circ::new/full_buffer, unsafe), Mutex atomicity (lock code dropped by rule X-LOCK), std BTreeMap/sort shims; stream.rs wrappers not under contract.',
    'assumptions': [
        'A-ALIAS: Circ::new / Circ::full_buffer (mmap double mapping, unsafe slice construction) are trusted: window element i is ring[(start+i) % cap]',
        'X-LOCK: each Mutex critical section is atomic; lock/condvar/Arc reference counting are dropped by the extraction (no concurrency claim)',
        'stream.rs wrappers (ReadStream::read_buf, WriteStream::write_buf, new_stream) only delegate to Buffer and are not under contract',
    ],
    'not_covered': ['Circ::new, Circ::full_buffer, Map::* (unsafe / FFI)', 'Buffer::wait_for_read / wait_for_write (condvar)',
                    'BufferReader::slice/iter/consume, BufferWriter::slice/fill_from_iter/produce (delegations through Arc / &mut slices)',
                    'src/stream.rs'],
}
P['C02'] = {
    'units': ['ring'],
    'technique': 'Verus function contracts on Buffer::produce/consume/read_buf over an abstract tag map (BTreeMap shim), inductive loop invariants',
    'level_text': 'Deductive proof for all ring offsets, commit/consume sizes and any number of tags per sample: produce stores each tag on its sample in commit order, consume removes exactly the tags of the consumed samples, read_buf returns every buffered tag exactly once at its window-relative position.',
    'level_note': 'Trusted: BTreeMap range/iteration/entry semantics (TagMap shim), stable sort shim, Tag payload opaque, Mutex atomicity.',
    'assumptions': [
        'TagMap shim = std BTreeMap semantics (range yields exactly the keys within the bounds, iteration ascending and once per key, entry().or_default().push appends)',
        'sort_tags_by_pos shim = std stable sort_by_key; Tag payload (key, value) is an opaque identity preserved by Tag::new(.., t.key(), t.val().clone())',
        'X-LOCK as for C01',
    ],
    'not_covered': ['NCReadStream / NCWriteStream drop tags by design (TODO in source)', 'src/stream.rs wrappers'],
}

P['C13'] = {
    'units': ['kani:hdlc'],
    'technique': 'Kani/CBMC full-domain proofs of the HDLC kernels (bits2byte, calc_crc+FCSTAB) on the compiled crate',
    'level_text': 'Kernel level only: bits2byte equals the LSB-first sum for all 256 bit vectors; calc_crc equals the bit-at-a-time CRC-16/X.25 definition for every message of length 1 and 2 (quick) and 3, 4 (thorough), which pins all 256 FCSTAB entries and the byte-composition step. The framing automaton (update_state / work) is NOT decided.',
    'level_note': 'Complete per stated message length (labelled bounded in evidence); arbitrary-length CRC and the framing state machine (owned Vec swapped through an enum, iterator-built byte vectors) are outside Verus\' subset and Kani cannot run a stream. Kani/CBMC trusted.',
    'not_covered': ['HdlcDeframer::work / update_state (framing automaton, bit unstuffing, size bounds, bit fixing)', 'calc_crc for messages longer than 4 bytes'],
    'assumptions': ['a block-level decision of C13 (every valid frame recovered in any chunking) is not made by this check'],
}
P['C14'] = {
    'units': ['kani:codecs'],
    'technique': 'Kani/CBMC loop-free full-domain proofs of Sample::{serialize,parse,size} for u8,u32,i32,f32,Complex',
    'level_text': 'Codec half only: parse(serialize(x)) is bit-identical to x for every bit pattern (NaN payloads included), serialize(x).len() == size(), parse never errs on size() bytes and serialize(parse(d)) == d for every byte pattern; Complex wire order I then Q, little endian. File/TCP/SigMF/AU halves are NOT decided.',
    'level_note': 'Loop-free harnesses over the full input domain are complete proofs. FileSource, TcpSource, SigMFSource, AuEncode/AuDecode use BufReader, sockets, tar, serde_json and iterator chains: outside Verus\' subset; Kani cannot run streams.',
    'not_covered': ['FileSource / FileSink round trip', 'TcpSource read segmentation', 'SigMFSource (recording, archive)', 'AuEncode / AuDecode', 'Sample for String (TODO in source)'],
}

P['C16'] = {
    'units': ['repeat', 'vsrc', 'kani:repeat'],
    'technique': 'Verus contracts on Repeat::{finite,infinite,again,done,count} and a history invariant on VectorSource::work over the stream contract; Kani cross-check of Repeat on the compiled code',
    'level_text': 'Deductive proof, no bound: the repeat counter has no precondition on call order and never under/overflows (count < 2^64-1 assumed); VectorSource::work preserves produced == data^count ++ data[..pos] with marker tags exactly once per repetition on its first sample, returns EOF exactly when data^N has been emitted and never for an infinite repeat, for every data length and every write-window length (all consumer schedules). File and SigMF sources are NOT decided.',
    'level_note': 'Trusted: the stream-API contract of units/stream_prelude.vx (abstracts stream.rs + circular_buffer.rs; Buffer-level facts proved in unit ring), vec!/Vec (vstd), subslice shim. FileSource and SigMFSource (BufReader, tar, serde_json, iterator chains) are outside Verus\' subset.',
    'not_covered': ['FileSource::work', 'SigMFSource::work', 'VectorSourceBuilder, VectorSource::new / set_repeat (constructors establish the invariant by inspection only)'],
    'assumptions': ['A-COUNT: fewer than 2^64-1 repetitions', 'the invariant is established by VectorSource::new (pos 0, count 0, empty output) -- not under contract (calls new_stream)'],
}
