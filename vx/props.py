"""Which units decide which property (DESIGN.md section 6)."""

COMMON_ASSUMPTIONS = [
    'Verus 0.2026.09.13 + Z3 and Kani 0.68 + CBMC 6.11 are sound; usize is 64-bit; overflow checks are on (Cargo.toml)',
    'the extractor (vx): items are cut from /repo by span on every run and rewritten only by the logged X-* rules of DESIGN.md section 4',
    'every external_body / uninterp item listed under coverage.trusted_base is a trusted specification, not proved',
]

P = {}

P['C01'] = {
    'units': ['ring', 'stream'],
    'technique': 'Verus function contracts + representation invariant on the real circular_buffer.rs functions and the stream.rs wrappers (mechanically extracted each run)',
    'level_text': 'Deductive proof for all states, sizes and operation arguments (no bound): wf is established by Buffer::new and preserved by produce/consume; window ranges, refusal of oversize commit/consume, readable+writable==capacity and the FIFO/partition/stability lemmas are postconditions or lemmas over those contracts.',
    'level_note': 'Trusted: mmap aliasing (Circ::new/full_buffer, unsafe), Mutex atomicity (lock code dropped by rule X-LOCK), std BTreeMap/sort shims. stream.rs (unit stream): read_buf / write_buf are proved to be pure delegations; new_stream / new_nocopy_stream hand out two ends of ONE fresh buffer / queue; ReadStream::eof; the packet streams NCReadStream::{pop, peek_size, eof} / NCWriteStream::push are a FIFO over a trusted VecDeque shim (pop returns the oldest packet exactly once, push appends).  ReadStream::wait_for_read / WriteStream::wait_for_write give up exactly when the buffer-level wait came back short and no other handle exists (the condvar wait inside Buffer is not under contract).',
    'assumptions': [
        'A-ALIAS: Circ::new / Circ::full_buffer (mmap double mapping, unsafe slice construction) are trusted: window element i is ring[(start+i) % cap]',
        'X-LOCK: each Mutex critical section is atomic; lock/condvar/Arc reference counting are dropped by the extraction (no concurrency claim)',
        'stream.rs: ReadStream::read_buf / WriteStream::write_buf are under contract as pure delegations (unit stream); new_stream, ReadStream::eof and the packet streams (pop / push / peek_size / eof / new_nocopy_stream) against shims of Arc (identity, strong_count at the time of the call) and VecDeque (pop_front / push_back / front / is_empty); each mutex critical section is atomic (rule X-NCQ, as X-LOCK); that the two ends alias one queue is the Arc identity, not modelled as shared state; the StreamWait trait impls and Buffer::wait_for_read / wait_for_write (condvar, timeout) are not under contract; ReadStream::wait_for_read / WriteStream::wait_for_write are, over an uninterpreted result of the buffer-level wait',
    ],
    'not_covered': ['Circ::new, Circ::full_buffer, Map::* (unsafe / FFI)', 'Buffer::wait_for_read / wait_for_write (condvar)',
                    'BufferReader::slice/iter/consume, BufferWriter::slice/fill_from_iter/produce (delegations through Arc / &mut slices)',
                    'src/stream.rs: StreamWait::{wait, closed} of all four stream ends (trait impls; the NC ones wait on a condvar), ReadStream::from_slice (test only), total_size / free / refcount (one-line delegations)'],
}
P['C02'] = {
    'units': ['ring', 'stream'],
    'technique': 'Verus function contracts on Buffer::produce/consume/read_buf over an abstract tag map (BTreeMap shim), inductive loop invariants',
    'level_text': 'Deductive proof for all ring offsets, commit/consume sizes and any number of tags per sample: produce stores each tag on its sample in commit order, consume removes exactly the tags of the consumed samples, read_buf returns every buffered tag exactly once at its window-relative position.',
    'level_note': 'Trusted: BTreeMap range/iteration/entry semantics (TagMap shim), stable sort shim, Tag payload opaque, Mutex atomicity.',
    'assumptions': [
        'TagMap shim = std BTreeMap semantics (range yields exactly the keys within the bounds, iteration ascending and once per key, entry().or_default().push appends)',
        'sort_tags_by_pos shim = std stable sort_by_key; Tag payload (key, value) is an opaque identity preserved by Tag::new(.., t.key(), t.val().clone())',
        'X-LOCK as for C01',
    ],
    'not_covered': ['NCReadStream / NCWriteStream drop tags by design (TODO in source)'],
}

P['C13'] = {
    'units': ['hdlc', 'crc', 'hdlcrt', 'kani:hdlc'],
    'technique': 'Verus: (1) the real HdlcDeframer::update_state / work proved equal to a spec automaton hd_next / hd_run over the consumed bits; (2) FCSTAB, calc_crc (any length), find_right_crc, bits2byte against the bitwise CRC-16/X.25 and the LSB-first byte; (3) the ROUND TRIP as a theorem about hd_run and an encoder specification (induction over bit stuffing); Kani cross-checks of bits2byte / calc_crc on the compiled code',
    'level_text': 'Round trip, no bound: for every payload whose on-the-wire size lies within [min_size, max_size], with or without checksum checking and bit fixing, and whatever follows, hd_run started right after an opening flag and fed stuff(LSB-first bits of payload ++ FCS) ++ flag delivers exactly that payload, once, and is again right after an opening flag (theorem_round_trip, by an induction over bit stuffing; a concrete frame is also evaluated as a vacuity guard). The real deframer IS hd_run: update_state equals the spec step hd_next for every state and bit, and work() folds it over its window, so the result does not depend on chunking. Also as separate clauses: the per-bit HDLC rules, nothing is emitted unless whole bytes within the size bounds whose CRC verifies, over-long frames are dropped without losing the bit that revealed them. Checksum: every FCSTAB entry by computation, calc_crc == bitwise CRC-16/X.25 for EVERY length, find_right_crc proved of its body, bits2byte == the LSB-first byte.',
    'level_note': 'The encoder is a specification written from the HDLC rules (rustradio has none to extract); the theorem starts right after a recognised opening flag (from the all-ones search register a flag is recognised at its last bit: lemma_opening_flag), not after arbitrary noise -- noise ending in 0111111 merges with the flag and legitimately costs the frame. That 1-2 bit corruptions are always detected is CRC theory and is not proved; that nothing with a wrong CRC is emitted is.',
    'not_covered': ['arbitrary noise before the opening flag (the theorem starts after a recognised flag)', 'that 1-2 bit corruptions are always detected and that a single-bit repair restores the ORIGINAL frame (CRC theory: minimum distance); proved: nothing with a wrong CRC is emitted, a repair is a single-bit flip whose CRC matches'],
    'assumptions': ['spec_byte is tied to bits2byte through the Kani group (all 256 vectors); the clauses unit hdlc assumes of find_right_crc are proved of its body in unit crc'],
}
P['C14'] = {
    'units': ['kani:codecs', 'fsrc', 'fsink', 'tcp', 'au', 'auenc', 'sigmf', 'filert', 'aurt'],
    'technique': 'Verus: the open-mode table and the consumed-means-on-disk invariant of FileSink (unit fsink, shared with C17: the file IS the serialisation of the consumed stream); Kani/CBMC loop-free full-domain proofs of Sample::{serialize,parse,size}; Verus stream-function invariants on FileSource / TcpSource / SigMFSource::work against a reader that may return any number of bytes, and on AuEncode / AuDecode::work',
    'level_text': 'Codecs: parse(serialize(x)) is bit-identical to x for every bit pattern (NaN payloads included), serialize(x).len() == size(), parse never errs on size() bytes and serialize(parse(d)) == d for every byte pattern; Complex wire order I then Q, little endian (Kani, complete). Byte-stream sources: FileSource::work, TcpSource::work and SigMFSource::work reassemble exactly the samples of the bytes for EVERY segmentation of the byte stream (read() may return any 1..=len bytes, incl. splits inside a sample); file sources repeated `count` times (Verus, no bound). File round trip as a theorem: parse_seq(ser_all(xs)) == xs for every sample sequence (and a file cut anywhere parses to a prefix), which links "the file is base ++ ser_all(consumed)" (unit fsink, C17) to "the source emits parse_seq(file)" (units fsrc, sigmf). AU: AuEncode::work emits the header then exactly two big-endian bytes per consumed sample; AuDecode::work the header state machine then one sample per two payload bytes; composed (theorem_au_round_trip): decoding the encoder\'s payload gives exactly one sample per input sample, each the decoder\'s value of the quantised input. SigMF metadata / archive member lookup are NOT decided.',
    'level_note': 'Loop-free harnesses over the full input domain are complete proofs; the two round-trip theorems are spec-level (they compose what the units prove of the real sink / source / encoder / decoder) and use the per-sample codec facts of the Kani group as one axiom. Quantisation and de-quantisation values are floating point (uninterpreted).',
    'not_covered': ['SigMFSource constructors: tar archive member lookup, metadata parsing (tar, serde_json)', 'the AU header as the decoder sees it when it comes from the encoder (the decoder unit proves the header state machine for every header; that the encoder\'s 28 bytes are an accepted one is checked by the bounded units only)', 'PduWriter', 'Sample for String (TODO in source)'],
}

P['C16'] = {
    'units': ['repeat', 'vsrc', 'fsrc', 'sigmf', 'kani:repeat'],
    'technique': 'Verus contracts on Repeat::{finite,infinite,again,done,count} and a history invariant on VectorSource::work over the stream contract; Kani cross-check of Repeat on the compiled code',
    'level_text': 'Deductive proof, no bound: the repeat counter has no precondition on call order and never under/overflows (count < 2^64-1 assumed); VectorSource::work preserves produced == data^count ++ data[..pos] with marker tags exactly once per repetition on its first sample, returns EOF exactly when data^N has been emitted and never for an infinite repeat, for every data length and every write-window length (all consumer schedules). FileSource::work and SigMFSource::work likewise (count whole passes of the data, EOF only when all are out, never for infinite with non-empty data, repeat 0 emits nothing, empty data ends at once).',
    'level_note': 'Trusted: the stream-API contract of units/stream_prelude.vx, vec!/Vec (vstd), reader shims (POSIX read/seek).',
    'not_covered': ['VectorSourceBuilder, VectorSource::new / set_repeat, SigMFSourceBuilder (constructors establish the invariant by inspection only)'],
    'assumptions': ['A-COUNT: fewer than 2^64-1 repetitions', 'the invariant is established by VectorSource::new (pos 0, count 0, empty output) -- not under contract (calls new_stream)'],
}

_BLOCK_ASSUME = [
    'the stream-API contract of units/stream_prelude.vx abstracts stream.rs + circular_buffer.rs as seen by one block (read_buf returns any extension of the pending input, write_buf any window not shorter than the space already seen); its data and tag clauses are derived from the ring unit\'s contracts by the refinement theorems in units/ring/unit.vx; trusted: that the shim methods ARE those operations (Arc, mutex atomicity, mmap aliasing) and the single-producer/single-consumer environment clause',
    'each block invariant is established by the block constructor (fresh streams, initial fields) -- constructors are not under contract (they call new_stream / are macro-generated)',
    'the derive-generated work() of fourteen in-crate sync blocks is verified from the macro expansion (unit synclib: step accounting, clamp, wait target, tag transfer, call-site preconditions; kernels as signatures); the other in-crate derive users have only the bounded stand-ins',
]
_NOT_COVERED_BLOCKS = [
    'derive-generated sync work(): proved from the macro expansion for Tee, FloatToComplex, BinarySlicer, ComplexToMag2, NrziDecode, Descrambler, CorrelateAccessCode, QuadratureDemod, FastFM, Xor, XorConst, Add, AddConst, MultiplyConst (unit synclib; the VALUES are the kernels\' business); for the remaining derive users (Map, SinglePoleIirFilter, BurstTagger, CorrelateAccessCodeTag, convert ...) only BOUNDED drip-feed stand-ins (bx:sync, bx:dsp), never counted as proved; their per-sample kernels are under contract in unit kernels / Kani',
    'FftFilterFloat::work (drives two private streams itself): bounded only (bx:dsp)',
    'IL2P header codec (LFSR, RS stripping, field parsing) is a trusted predicate; which single-bit repair HDLC bit fixing picks is an uninterpreted function of (payload, FCS) (A-PURE)',
    'ToText: bounded only (bx:totext); PduWriter, DebugSink and the other sinks/sources not listed under functions',
    'Wpcr::process_one (FFT planner + iterator pipeline); only its callee find_best_bin and Midpointer::work are under contract',
    'the VALUES computed by floating-point code (C11 n/a): float operations are uninterpreted deterministic functions',
    'Delay::set_delay', 'constructors (establish the invariants by inspection only)']

_BU = ['skip', 'delay', 'vsrc', 'v2s', 'consts', 'resampler', 'rtlsdr', 's2pdu', 'hilbert', 'fftstream', 'fftfilter']
_FIR = ['fir']
P['C08'] = {
    'units': list(_BU) + _FIR + ['zc', 'symsync', 'il2p', 'hdlc', 'au', 'auenc', 'fsrc', 'sigmf', 'tcp', 'synclib', 'bx:sync', 'bx:dsp', 'bx:totext'],
    'technique': 'Verus: each covered work() proved to preserve out.produced == F(in.consumed) under a stream-API contract with a universally quantified environment (any window lengths)',
    'level_text': 'Deductive proof, no bound, for the blocks listed under functions (Skip, Delay, VectorSource, VecToStream, ConstantSource, NullSink, RationalResampler, FirFilter, RtlSdrDecode, StreamToPdu, Hilbert, FftStream, FftFilter, ZeroCrossing, SymbolSync, Il2pDeframer, HdlcDeframer): the invariant (state, dst.produced) == F(src.consumed) holds after every work() call for every read-window extension and every write-window length, hence for every chunking, every amount of free output space (incl. full) and every wrap position; no panic site in those bodies is reachable. Float arithmetic inside F is uninterpreted. Sync blocks generated by the derive macro and FftFilterFloat are covered by BOUNDED differential runs only (bit-identical output of a roomy run and an adversarial drip-fed run of the same millions of samples), labelled bounded.',
    'level_note': 'Subset; see coverage.not_covered. Trusted: stream-API contract (stream_prelude.vx), std shims, determinism of float operations. Where F is spelled out (clock recovery step, PDU rule, resampler rule, overlap-add) a behaviour change that keeps chunk independence still fails the contract and must be accompanied by a contract update.',
    'not_covered': _NOT_COVERED_BLOCKS, 'assumptions': _BLOCK_ASSUME,
}
P['C09'] = {
    'units': list(_BU) + _FIR + ['zc', 'symsync', 'il2p', 'sigmf', 'hdlc', 'fsrc', 'fsink', 'tcp', 'au', 'auenc', 'misc', 'synclib', 'stream', 'bx:sync', 'bx:dsp'],
    'technique': 'Verus: call-site preconditions of consume/produce (n <= window, window belongs to the stream, not stale) and verdict postconditions on each covered work()',
    'level_text': 'Deductive proof for the covered work() bodies: every consume/produce call site stays within its window and uses a window of that stream; WaitForStream(s, need) is returned only when stream s offered fewer than need in this call (so the wait names the blocking stream and asks for what is missing); Again only from a call that made progress; an empty input yields a wait on the input; EOF only when the data is exhausted. No window escapes work() (syntactic check of rule X-WIN). Bounded only: wait truthfulness of sync blocks by timing (bx:sync), Again-means-progress of the float blocks (bx:dsp).',
    'level_note': 'Subset only. "holds no window after return" is a syntactic check of the extractor, stated as such.',
    'not_covered': _NOT_COVERED_BLOCKS + ['graph.rs / mtgraph.rs handling of the verdicts'], 'assumptions': _BLOCK_ASSUME,
}
P['C10'] = {
    'units': list(_BU) + _FIR + ['kernels', 'kani:lfsr', 'bx:rtlsdr', 'bx:totext', 'bx:kernels'],
    'technique': 'Verus stream-function invariants (spec function F per block written from its documentation) + Kani full-domain proofs of the LFSR steps',
    'level_text': 'Deductive proof for a stated subset: Skip, Delay, VectorSource, VecToStream, ConstantSource, NullSink, RationalResampler (documented keep/repeat rule), FirFilter (counts; values float), RtlSdrDecode (one I/Q per byte pair), StreamToPdu (burst rule), Hilbert / FftStream / FftFilter (framing; kernels uninterpreted) emit exactly F(input) with exact counts; the per-sample kernels of NrziDecode, Tee, the two correlators and BurstTagger equal their documented rule; descrambler and IL2P LFSR steps equal their recurrences for all register/mask/seed values (Kani).',
    'level_note': 'Subset only; the generated per-sample loop around the kernels, the text formatter and float values are not decided.',
    'not_covered': _NOT_COVERED_BLOCKS, 'assumptions': _BLOCK_ASSUME,
}
P['C12'] = {
    'units': ['ring', 'skip', 'delay', 'vsrc', 'v2s', 'fir', 'hilbert', 'fftfilter', 'kernels', 'synclib', 'bx:sync', 'bx:dsp'],
    'technique': 'Verus: caller-against-callee check of the stream contract tag.pos < n at every produce() call site + tag-transfer clause of each block invariant',
    'level_text': 'Deductive proof for a stated subset: (a) every produce(n, tags) call site in covered bodies establishes tag.pos < n (the precondition Buffer::produce carries in unit ring); (b) the tag-transfer clause of each invariant: identity after the skip (Skip), shift by the delay (Delay), index / deci for consumed samples only (FirFilter), same index for processed samples only (Hilbert), every tag of a consumed sample either out on its own sample or held with its block (FftFilter), marker tags once per repetition (VectorSource), start/end per packet (VecToStream), correlator and burst tags exactly on their sample (kernels). Bounded only: tag forwarding of the generated sync loop (bx:sync) and of FftFilterFloat / float sync blocks (bx:dsp: each tag once at the same index in a roomy and a drip-fed run).',
    'level_note': 'Subset only; see coverage.not_covered.',
    'not_covered': _NOT_COVERED_BLOCKS, 'assumptions': _BLOCK_ASSUME,
}
P['C15'] = {
    'units': ['skip', 'delay', 'v2s', 'fir', 'resampler', 'rtlsdr', 's2pdu', 'hilbert', 'fftstream', 'fftfilter', 'zc', 'symsync', 'sigmf', 'wpcr', 'hdlc', 'crc', 'tcp', 'au', 'auenc', 'il2p', 'synclib', 'kani:lfsr', 'kani:hdlc', 'kani:codecs', 'bx:dsp'],
    'technique': 'Verus panic-freedom obligations (refuse/overflow/bounds/callee preconditions unreachable for arbitrary sample values) + Kani totality harnesses over all input bytes',
    'level_text': "Deductive proof for the covered bodies: no panic site (slice index, unwrap, overflow, division, assert where it is an obligation) is reachable for any sample / byte / burst / file content: the block bodies listed under functions, AuDecode header arithmetic, HdlcDeframer::update_state, SigMFSource::work (truncated and empty data), wpcr find_best_bin and Midpointer::work (every burst incl. empty, one element, constant, NaN), ZeroCrossing / SymbolSync index arithmetic on both outputs; Kani: bits2byte, calc_crc (lengths 1..2, thorough ..4), the codecs' parse for all bytes; the two LFSR steps for every input byte (2 known findings). Il2pDeframer::work index arithmetic and its two assert sites. Bounded only: float blocks (bx:dsp).",
    'level_note': "Subset only: SymbolSync's two assert!s on float ordering are treated as refusals (float reasoning, not decided), Wpcr::process_one and SigMF metadata / archive parsing are not under contract.",
    'not_covered': ['Wpcr::process_one', 'SigMF metadata / tar parsing (serde_json, tar)', 'SymbolSync assert!(stream_pos > last_sym_boundary_pos) and assert!(t > 0.0): float ordering', 'sort_by(partial_cmp().unwrap()) inside Midpointer (no NaN can be present when the mean is not NaN: float argument)', 'IL2P Header::parse / decode_callsign / describe (String building): trusted callee', 'ToText, PduWriter'], 'assumptions': _BLOCK_ASSUME,
}

P['C17'] = {
    'units': ['fsink'],
    'technique': 'Verus: mode-table postcondition on the real FileSink::new / NoCopyFileSink::new builder chains against a trusted open(2) specification; effect-order invariant (ghost write buffer / file content) on FileSink::work / NoCopyFileSink::work',
    'level_text': 'Both halves, deductively: (1) for every initial path state {absent, regular file with any content} and each mode, the result of the real builder chain equals the documented table; open errors for other states are passed on by `?`. (2) work(): with ghost state (bytes on disk, bytes still in the BufWriter), the file content equals base ++ serialise(consumed samples) and the write buffer is empty whenever work() returns Ok, the file only ever grows and is always a prefix of the serialised stream -- for every window length; same for the packet sink (one line per popped packet).',
    'level_note': 'Trusted: POSIX open(2)/OpenOptions flag semantics and the BufWriter/File append semantics written in units/fsink/unit.vx (write_all buffers or passes on a prefix, flush empties the buffer into the file, nothing rewrites the file). Real SIGKILL behaviour of the kernel page cache is outside any contract.',
    'not_covered': ['directory / unwritable path states beyond "the open error is returned"', 'what the OS does with written-but-unsynced pages on power loss (no fsync in the code; the property only speaks of killing the process)'],
    'assumptions': ['open(2) shim: fails iff (create_new and exists) or (neither create nor create_new and absent); truncate empties; append positions at end', 'File::create == write+create+truncate', 'BufWriter shim as described', 'a serialised sample is 1..64 bytes; cap * 64 fits usize'],
}

P['C19'] = {
    'units': ['syncx', 'synclib', 'stream'],
    'technique': 'Verus function contracts on the code the derive macro GENERATES: rustc prints the macro expansion of derive users of every arity (vx/expand.py), the generated work / eof / new / process_sync_tags are cut from it and verified against the stream contract; loop invariants on the (desugared) per-sample loop',
    'level_text': 'Deductive proof, no bound on window lengths, tag counts or sample values, for eleven derive users covering 1..3 inputs x 1..3 outputs in sync mode (one of them stateful, with default / into / plain fields), two sync_tag users (one forwarding the tags of its SECOND input) and a new()-only user with a non-copy output: a call that returns Again took the same k >= 1 samples from every input and committed k to every output, k is exactly min(shortest input, smallest output space) (some stream is exhausted afterwards), output j sample i is process_sync of the inputs at i (for the stateful block: with the state after i earlier calls, so the kernel runs once per step, in order), the tags of the tag-source input reach every output exactly once on the same sample; WaitForStream names, with need 1, an input that is empty or an output that is full, and nothing moved; the generated assert_ne!s cannot fire; generated eof() is true only if every input has ended; generated new() stores the inputs it was given, pairs every output with a fresh stream and returns the read ends in declaration order, defaults / converts / stores the other fields.  The derive users must also COMPILE: a type error inside the derive expansion is reported as a violation with the failing program.',
    'level_note': 'The verified text is rustc\'s pretty-printed expansion of the token stream rustradio_macros produced from /repo\'s current tree -- not the macro source, and not a transcription.  Trusted: the desugaring of the lazy iterator pipeline into a counted loop (rule X-SYNCLOOP, DESIGN.md section 4: take / zip / enumerate / izip! semantics), fold-min (X-XPAND), the tag-filter shim tags_at, the stream contract.  ReadStream::eof, new_stream and new_nocopy_stream, which the generated eof() / new() call, are under contract in unit stream (eof: exactly when this is the only handle left and the read window is empty; new_*: both ends hold one fresh buffer / empty queue).  When the expansion no longer has the shape the rules know, the unit is undecided and the bounded harness bx/syncx_harness.rs (same blocks, same obligations, concrete schedules) stands in.',
    'not_covered': ['arities above 3 x 3 (the generated code is uniform in the arity, but only 1..3 x 1..3 are instantiated)',
                    'freshness of the streams new() creates is stated as "empty and well formed"; that two calls of new_stream() return different streams is not expressible without a global ghost counter',
                    'the in-crate derive users (Tee, Add, ...): same generated text, see unit synclib where present; their kernels are under C10',
                    'BlockName, custom_name, noeof / nevereof attribute combinations', 'the non-sync path of the macro generates nothing but new(), eof() and the name'],
    'assumptions': ['X-SYNCLOOP: `let it = A.iter().take(n).zip(B.iter())..enumerate().map(|(pos, PAT)| BODY); for (S, O..) in izip!(it, O.slice().iter_mut()..) { (*O..) = S }` runs BODY for pos = 0, 1, .. min(n, A.len(), B.len().., O.len()..) - 1 in order, binding PAT to references to the pos-th elements and storing the result in the pos-th output slots',
                    'ReadStream::eof() == "the writer is gone and the buffer is drained": proved of the real function in unit stream, with Arc::strong_count read at the time of the call and Buffer::read_buf as specified in unit ring',
                    'new_stream() returns the two ends of one stream (proved in unit stream: one Arc, cloned); that the buffer Buffer::new returns is empty and well formed is proved in unit ring',
                    'the stream-API contract of units/stream_prelude.vx (its data and tag clauses are derived from the ring contracts in unit ring)'],
    'back_ends': 'Verus 0.2026.09.13 / Z3 (vx) on rustc -Zunpretty=expanded output; bounded stand-in / replay: cargo test of bx/syncx_harness.rs',
}
