import json,jsonschema,sys,glob
jsonschema.validate(json.load(open('/verif/MANIFEST.json')), json.load(open('/root/.vp/MANIFEST.schema.json')))
sch=json.load(open('/root/.vp/EVIDENCE.schema.json'))
for f in sorted(glob.glob('/verif/evidence/*.json')):
    jsonschema.validate(json.load(open(f)), sch); print('ok', f)
print('manifest valid')
