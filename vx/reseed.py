#!/usr/bin/env python3
"""reseed.py [seed ...] -- re-run the registered checks against every stored seed (apply to /repo, check, undo) and refresh
meta.json['verif']['checks'/'detected'].  The confirmation of the seed itself (suite passes, demo fails) and the first-shot
verdict are left as recorded by seed.py."""
import json, os, subprocess, sys, glob, fcntl
VERIF = '/verif'
names = sys.argv[1:] or sorted(os.path.basename(d.rstrip('/')) for d in glob.glob(VERIF + '/seeded/*/') if os.path.exists(d + 'meta.json'))
lock = open('/verif/build/seed.lock', 'w'); fcntl.flock(lock, fcntl.LOCK_EX)
for name in names:
    dst = os.path.join(VERIF, 'seeded', name)
    meta = json.load(open(os.path.join(dst, 'meta.json')))
    v = meta.setdefault('verif', {})
    props = sorted((v.get('checks') or {}).keys() - {'apply_error'}) or [meta['property'].split()[0].split(',')[0].split('/')[0]]
    st = subprocess.run(['git', '-C', '/repo', 'status', '--porcelain'], capture_output=True, text=True).stdout.strip()
    if st:
        print('refusing: /repo is dirty'); sys.exit(3)
    checks = {}
    a = subprocess.run(['git', '-C', '/repo', 'apply', '--whitespace=nowarn', os.path.join(dst, 'patch.diff')], capture_output=True, text=True)
    if a.returncode != 0:
        checks['apply_error'] = a.stderr[-600:]
    else:
        try:
            for p in props:
                r = subprocess.run([os.path.join(VERIF, 'check'), p], capture_output=True, text=True, env=dict(os.environ, VERIF_NOEVIDENCE='1'))
                checks[p] = {'rc': r.returncode, 'lines': [l for l in r.stdout.strip().split('\n') if not l.startswith('KNOWN-FINDING')][:8]}
        finally:
            subprocess.run(['git', '-C', '/repo', 'checkout', '--', '.'], check=True)
    v['checks'] = checks
    v['detected'] = any(isinstance(c, dict) and c.get('rc') == 1 for c in checks.values())
    json.dump(meta, open(os.path.join(dst, 'meta.json'), 'w'), indent=1)
    print(name, 'detected=%s' % v['detected'], {k: (c.get('rc') if isinstance(c, dict) else 'APPLY-ERROR') for k, c in checks.items()}, flush=True)
