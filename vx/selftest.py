#!/usr/bin/env python3
"""Mutation self-test of the checks (DESIGN.md section 7): every listed property-breaking edit must turn the
corresponding check to exit 1 on a scratch copy, every benign edit must leave it at exit 0.  Writes
build/selftest.json; exit 0 iff all as expected.  Never touches /repo."""
import concurrent.futures as cf, json, os, shutil, subprocess, sys, tempfile

CB = 'src/circular_buffer.rs'
MC = 'rustradio_macros/src/lib.rs'
M = [
 # (property, file, old, new, expected rc)
 ('C02', CB, 'range((Included(s.rpos), Excluded(newpos)))', 'range((Excluded(s.rpos), Excluded(newpos)))', 1),
 ('C02', CB, 'if newpos > s.rpos {', 'if newpos >= s.rpos {', 1),
 ('C01', CB, 's.wpos = (s.wpos + n) % s.capacity();', 's.wpos = s.wpos + n;', 1),
 ('C01', CB, 'self.capacity() - self.used', 'self.capacity() + self.used', 1),
 ('C02', CB, '(tag.pos() + s.capacity() - start) % s.capacity()', '(tag.pos() + s.capacity() - start + 1) % s.capacity()', 1),
 ('C02', CB, 'let pos = (tag.pos() + s.wpos) % s.capacity();', 'let pos = (tag.pos() + s.wpos + 1) % s.capacity();', 1),
 ('C01', CB, 'if member_size == 0 || size % member_size != 0 {', 'if member_size == 0 {', 1),
 ('C01', CB, 's.used -= n;', 's.used -= n; let _ = 0;', 0),                      # benign
 ('C16', 'src/lib.rs', 'n.saturating_sub(1)', 'n - 1', 1),
 ('C16', 'src/lib.rs', '                n > 1\n', '                n > 0\n', 1),
 ('C16', 'src/vector_source.rs', 'if self.repeat.count() == 0 && self.pos == 0 {', 'if self.repeat.count() == 0 {', 1),
 ('C16', 'src/vector_source.rs', '            self.pos = 0;\n', '            self.pos = 1;\n', 1),
 ('C12', 'src/skip.rs', 'filter(|t| t.pos() < len)', 'filter(|t| t.pos() <= len)', 1),
 ('C08', 'src/skip.rs', 'let skip = std::cmp::min(self.skip, i.len());', 'let skip = std::cmp::min(self.skip + 1, i.len());', 1),
 ('C09', 'src/skip.rs', 'return Ok(BlockRet::WaitForStream(&self.dst, 1));', 'return Ok(BlockRet::WaitForStream(&self.src, 1));', 1),
 ('C08', 'src/delay.rs', '            if self.current_delay > 0 {\n                // All of', '            if false {\n                // All of', 1),
 ('C15', 'src/delay.rs', 'o.fill_from_slice(&input.slice()[..n]);', 'o.fill_from_slice(input.slice());', 1),
 ('C09', 'src/vec_to_stream.rs', 'return Ok(BlockRet::WaitForStream(&self.dst, n));', 'return Ok(BlockRet::WaitForStream(&self.src, n));', 1),
 ('C12', 'src/vec_to_stream.rs', 'Tag::new(n - 1, TAG_END', 'Tag::new(n, TAG_END', 1),
 ('C08', 'src/rational_resampler.rs', '                        taken -= 1;\n', '', 1),
 ('C12', 'src/fir.rs', 'tags.retain(|t| t.pos() < n);', 'tags.retain(|t| t.pos() <= n);', 1),
 ('C15', 'src/fir.rs', 'let need = n + self.ntaps - 1;', 'let need = n + self.ntaps - 2;', 1),
 ('C17', 'src/file_sink.rs', None, None, 1),   # placeholder replaced below
 ('C13', 'src/hdlc_deframer.rs', '0x9dc1', '0x9dc3', 1),
 ('C14', 'src/lib.rs', 'let q = Float::from_le_bytes(data[Self::size() / 2..].try_into()?);\n        Ok(Complex::new(i, q))', 'let q = Float::from_le_bytes(data[Self::size() / 2..].try_into()?);\n        Ok(Complex::new(q, i))', 1),
 ('C10', 'src/nrzi.rs', '1 ^ a ^ tmp', 'a ^ tmp', 1),
 ('C08', 'src/skip.rs', '            // Fast path, once skipping is done.\n', '            // Fast path, once the skipping is done.\n', 0),   # benign: comment
 ('C02', CB, 'let newpos = (s.rpos + n) % s.capacity();', 'let newpos = (n + s.rpos) % s.capacity();', 0),                       # benign: commuted
 # units added later
 ('C08', 'src/zero_crossing.rs', '            self.last_sign = sign;\n            self.counter += 1;', '            self.counter += 1;', 2),   # a DIFFERENT deterministic rule: C08 still holds; the pinned clause fails, the stand-in sees no chunk dependence: undecided
 ('C15', 'src/zero_crossing.rs', 'std::cmp::min(o.len(), clock.len())', 'o.len()', 1),
 ('C08', 'src/symbol_sync.rs', '                self.last_sym_boundary_pos = self.stream_pos;\n                self.last_sign = sign;', '                self.last_sign = sign;', 2),   # same
 ('C12', 'src/fft_filter.rs', 'Tag::new(t.pos() + base, t.key(), t.val().clone())', 'Tag::new(t.pos(), t.key(), t.val().clone())', 1),
 ('C08', 'src/fft_filter.rs', 'self.tail[i] = self.buf[self.nsamples + i];', 'self.tail[i] = self.buf[i];', 2),   # wrong overlap-add, but the same for every chunking: undecided
 ('C09', 'src/au.rs', 'return Ok(BlockRet::WaitForStream(&self.dst, ss));', 'return Ok(BlockRet::WaitForStream(&self.dst, 1));', 1),
 ('C14', 'src/au.rs', 'o.slice()[j * ss..(j + 1) * ss].clone_from_slice(&val.to_be_bytes());', 'o.slice()[j * ss..(j + 1) * ss].clone_from_slice(&val.to_le_bytes());', 1),
 ('C16', 'src/sigmf.rs', '            if self.range.1 == 0 || !self.repeat.again() {', '            if self.range.1 == 0 || self.repeat.again() {', 1),
 ('C14', 'src/sigmf.rs', '            self.left -= n as u64;', '            self.left -= std::cmp::min(n, 1) as u64;', 1),
 ('C15', 'src/wpcr.rs', '.max_by(|a, b| a.partial_cmp(b).unwrap_or(std::cmp::Ordering::Equal))?', '.max_by(|a, b| a.partial_cmp(b).unwrap_or(std::cmp::Ordering::Equal)).unwrap()', 1),
 ('C13', 'src/hdlc_deframer.rs', 'return Ok(State::Unsynced(0x7f | (bit << 7)));', 'return Ok(State::Unsynced(0xff));', 1),
 ('C02', 'src/stream.rs', '        Arc::clone(&self.circ).read_buf()\n', '        let (b, mut t) = Arc::clone(&self.circ).read_buf()?;\n        t.dedup_by(|a, b| a.pos() == b.pos());\n        Ok((b, t))\n', 1),
 ('C08', 'src/symbol_sync.rs', '            // Stay around zero so that we don\'t lose float precision.\n', '            // Stay near zero so that we do not lose float precision.\n', 0),   # benign
 ('C14', 'src/sigmf.rs', '        let sample_size = T::size();\n        let have = self.buf.len() / sample_size;\n        let want = o.len();', '        let sample_size = T::size();\n        let want = o.len();\n        let have = self.buf.len() / sample_size;', 0),   # benign: independent statements swapped
 # the derive macro: checked through the macro EXPANSION (units syncx, synclib)
 ('C19', MC, 'return Ok(#path::block::BlockRet::WaitForStream(&self.#out_names, 1));', 'return Ok(#path::block::BlockRet::WaitForStream(&self.#first, 1));', 1),
 ('C19', MC, 'fold(n, |min, &x|min.min(x))', 'fold(usize::MAX, |min, &x|min.min(x))', 1),
 ('C19', MC, 'if true #(&&self.#in_names.eof())* {', 'if false #(||self.#in_names.eof())* {', 1),
 ('C19', MC, '#(#out_names.produce(n, &otags);)*', '#(#out_names.produce(n, &[]);)*', 1),
 ('C19', MC, '.filter(|t| t.pos() == pos)', '.filter(|t| t.pos() <= pos)', 1),           # shape the rules do not know: decided by the bounded stand-in
 ('C19', MC, '#(#in_names.consume(n);)*', '#first.consume(n);', 1),
 ('C19', MC, '#(#out_names: #out_names.0,)*', '#(#out_names: #out_names.0,)* ', 0),   # benign: whitespace in the generator
 ('C19', MC, '// Clamp n to be no more than the input available.', '// Clamp n to the input that is available.', 0),   # benign: comment
 ('C12', MC, '#(#out_names.produce(n, &otags);)*', '#(#out_names.produce(n, &[]);)*', 1),
 ('C09', MC, 'return Ok(#path::block::BlockRet::WaitForStream(&self.#out_names, 1));', 'return Ok(#path::block::BlockRet::WaitForStream(&self.#first, 1));', 1),
 ('C08', MC, '#(#in_names.consume(n);)*', '#first.consume(n);', 1),
]

def one(m):
    prop, rel, old, new, want = m
    d = tempfile.mkdtemp(prefix='vxself_', dir='/tmp')
    try:
        # HEAD, not the working tree: seeds may be applied to /repo's working tree while this runs
        subprocess.run('git -C /repo archive HEAD | tar -x -C %s' % d, shell=True, check=True)
        p = os.path.join(d, rel)
        s = open(p).read()
        if rel == 'src/file_sink.rs' and old is None:
            old, new = '                .append(true)\n                .create(true)\n', '                .append(true)\n'
            if s.count(old) != 2:
                return (m, 3, 'site count %d' % s.count(old))
            s = s.replace(old, new, 1)
        else:
            if s.count(old) != 1:
                return (m, 3, 'mutation site found %d times' % s.count(old))
            s = s.replace(old, new)
        open(p, 'w').write(s)
        env = dict(os.environ, VERIF_REPO=d, VERIF_NOEVIDENCE='1', VERIF_TAG='_st%d' % (abs(hash((prop, rel, old))) % 100000))
        r = subprocess.run(['/verif/check', prop], env=env, capture_output=True, text=True)
        return (m, r.returncode, ' | '.join(l for l in r.stdout.strip().split('\n') if not l.startswith('KNOWN'))[:300])
    finally:
        shutil.rmtree(d, ignore_errors=True)

def main():
    out = []
    with cf.ThreadPoolExecutor(max_workers=6) as ex:
        for m, rc, txt in ex.map(one, M):
            ok = rc == m[4]
            out.append({'property': m[0], 'file': m[1], 'old': (m[2] or '')[:80], 'new': (m[3] or '')[:80], 'expected_rc': m[4], 'rc': rc, 'ok': ok, 'output': txt})
            print('%s %s %s: rc=%d want=%d  %s' % ('ok  ' if ok else 'BAD ', m[0], m[1], rc, m[4], '' if ok else txt))
    os.makedirs('/verif/build', exist_ok=True)
    json.dump(out, open('/verif/build/selftest.json', 'w'), indent=1)
    killed = sum(1 for o in out if o['expected_rc'] == 1 and o['rc'] == 1)
    print('mutants killed %d / %d; benign kept %d / %d' % (killed, sum(1 for o in out if o['expected_rc'] == 1),
          sum(1 for o in out if o['expected_rc'] == 0 and o['rc'] == 0), sum(1 for o in out if o['expected_rc'] == 0)))
    return 0 if all(o['ok'] for o in out) else 1

if __name__ == '__main__':
    sys.exit(main())
