"""Token-pattern rewrite rules (the X-* rules of DESIGN.md section 4).

A pattern is Rust text with metavariables `$name:k`:
  k = e  expression: 1+ balanced tokens, stops before a top-level `,` `;` or an unmatched closer
      a  any: 0+ balanced tokens, stops before an unmatched closer (may contain `,` and `;`)
      p  place/path: ident ((`.`|`::`) ident|num)*   (greedy)
      i  one identifier
      b  one `{ ... }` block
      c  optional comma
      t  type: balanced tokens incl. `<...>` generics, stops before top-level `,` `;` `=` `{` or closer
Matching is on tokens, so formatting / comments / line breaks do not matter.  The
replacement is text with `$name`; captured text is the verbatim source slice.
"""
import re
from dataclasses import dataclass, field
from rtok import tokenize, OPEN, CLOSE, match_close, skip_generics

_MV = re.compile(r'\$([A-Za-z_][A-Za-z0-9_]*)(?::([a-z]))?')


@dataclass
class Rule:
    rid: str
    pattern: str
    repl: object
    why: str = ''
    stmt_start: bool = False   # only match at the start of a statement
    ptoks: list = field(default_factory=list)

    def __post_init__(self):
        mvs = {}

        def sub(m):
            name, k = m.group(1), m.group(2) or 'e'
            mvs[name] = k
            return ' __MV_%s__ ' % name
        p = _MV.sub(sub, self.pattern)
        self.ptoks = []
        for t in tokenize(p):
            m = re.fullmatch(r'__MV_(\w+?)__', t.text)
            if m:
                self.ptoks.append(('mv', m.group(1), mvs[m.group(1)]))
            else:
                self.ptoks.append(('tok', t.text, None))


def _match_from(ptoks, pi, toks, ti, caps):
    """Backtracking matcher. Returns end token index (exclusive) or -1."""
    if pi == len(ptoks):
        return ti
    kind, val, k = ptoks[pi]
    n = len(toks)
    if kind == 'tok':
        if ti < n and toks[ti].text == val:
            return _match_from(ptoks, pi + 1, toks, ti + 1, caps)
        return -1
    if k == 'c':
        if ti < n and toks[ti].text == ',':
            r = _match_from(ptoks, pi + 1, toks, ti + 1, caps)
            if r >= 0:
                return r
        return _match_from(ptoks, pi + 1, toks, ti, caps)
    if k == 'i':
        if ti < n and toks[ti].kind == 'id':
            caps[val] = (ti, ti + 1)
            return _match_from(ptoks, pi + 1, toks, ti + 1, caps)
        return -1
    if k == 'b':
        if ti < n and toks[ti].text == '{':
            j = match_close(toks, ti)
            caps[val] = (ti, j + 1)
            return _match_from(ptoks, pi + 1, toks, j + 1, caps)
        return -1
    if k == 'p':
        if not (ti < n and toks[ti].kind == 'id'):
            return -1
        j = ti + 1
        while j + 1 < n and toks[j].text in ('.', '::') and toks[j + 1].kind in ('id', 'num'):
            # do not swallow a method call `.name(`
            if j + 2 < n and toks[j + 2].text == '(' and toks[j].text == '.':
                break
            j += 2
        # greedy, then back off
        while j > ti:
            caps[val] = (ti, j)
            r = _match_from(ptoks, pi + 1, toks, j, caps)
            if r >= 0:
                return r
            j -= 2
        return -1
    if k in ('e', 'a', 't'):
        j = ti
        min_len = 1 if k in ('e', 't') else 0
        while True:
            if j - ti >= min_len:
                caps[val] = (ti, j)
                r = _match_from(ptoks, pi + 1, toks, j, caps)
                if r >= 0:
                    return r
            if j >= n:
                return -1
            t = toks[j]
            if t.kind == 'punct':
                if t.text in CLOSE:
                    return -1
                if k == 'e' and t.text in (',', ';'):
                    return -1
                if k == 't' and t.text in (',', ';', '=', '{'):
                    return -1
                if k == 't' and t.text == '<':
                    j = skip_generics(toks, j)
                    continue
                if t.text in OPEN:
                    if k == 't' and t.text == '{':
                        return -1
                    j = match_close(toks, j) + 1
                    continue
            j += 1
    raise ValueError('bad metavariable kind %r' % k)


def _stmt_start(toks, ti):
    return ti == 0 or toks[ti - 1].text in ('{', '}', ';')


class LineMap:
    """Maps line numbers of the rewritten text back to line numbers of the cut text."""

    def __init__(self, text, first_line):
        self.map = [first_line + i for i in range(text.count('\n') + 1)]

    def replace(self, text, start, end, repl):
        a = text.count('\n', 0, start)
        b = text.count('\n', 0, end)
        m = repl.count('\n')
        self.map = self.map[:a] + [self.map[a]] * (m + 1) + self.map[b + 1:]

    def orig(self, line_idx0):
        if 0 <= line_idx0 < len(self.map):
            return self.map[line_idx0]
        return self.map[-1] if self.map else 0


def apply_rule(rule, text, lmap, log, where):
    pos_tok = 0
    guard = 0
    while True:
        guard += 1
        if guard > 500:
            raise ValueError('rule %s does not terminate' % rule.rid)
        toks = tokenize(text)
        hit = None
        for ti in range(pos_tok, len(toks)):
            if rule.ptoks[0][0] == 'tok' and toks[ti].text != rule.ptoks[0][1]:
                continue
            if rule.stmt_start and not _stmt_start(toks, ti):
                continue
            caps = {}
            end = _match_from(rule.ptoks, 0, toks, ti, caps)
            if end >= 0 and end > ti:
                hit = (ti, end, caps)
                break
        if not hit:
            return text
        ti, end, caps = hit
        s, e = toks[ti].start, toks[end - 1].end
        capt = {}
        for name, (a, b) in caps.items():
            capt[name] = text[toks[a].start:toks[b - 1].end] if b > a else ''
        if callable(rule.repl):
            repl = rule.repl(capt)
        else:
            repl = _MV.sub(lambda m: capt.get(m.group(1), m.group(0)), rule.repl)
        before = text[s:e]
        line = lmap.orig(text.count('\n', 0, s))
        log.append({'rule': rule.rid, 'where': where, 'line': line,
                    'before': ' '.join(before.split())[:300], 'after': ' '.join(repl.split())[:300]})
        lmap.replace(text, s, e, repl)
        text = text[:s] + repl + text[e:]
        # continue after the replacement
        pos_tok = len(tokenize(text[:s + len(repl)]))


def apply_rules(rules, text, first_line, log, where):
    lmap = LineMap(text, first_line)
    for r in rules:
        text = apply_rule(r, text, lmap, log, where)
    return text, lmap
