"""Replay files: the failed obligation, the verifier's output, and -- where one exists -- a concrete
failing input found on the real code."""
import json
import os
import re

VERIF = os.path.dirname(os.path.dirname(os.path.abspath(__file__)))


def _slug(s):
    return re.sub(r'[^A-Za-z0-9_.-]+', '_', s)[:120]


def write(prop, f, r, repo, tier):
    rdir = os.path.join(os.environ.get('VERIF_BUILD') or os.path.join(VERIF, 'build'), 'replay-scratch') if os.environ.get('VERIF_NOEVIDENCE') else os.path.join(VERIF, 'replay')
    os.makedirs(rdir, exist_ok=True)
    path = os.path.join(rdir, '%s-%s-%s.json' % (prop, _slug(f['fn']), _slug(f['label'])))
    doc = {
        'property': prop, 'unit': f['unit'], 'function': f['fn'], 'obligation': f['label'], 'kind': f['kind'],
        'source': ('%s:%s' % tuple(f['src'])) if f.get('src') else None,
        'statement': f.get('stmt'),
        'verifier_message': f.get('message'),
        'verifier_output': f.get('rendered'),
        'generated_file': getattr(r, 'gen_path', None),
        'generated_line': f.get('gen_line'),
        'checker_cmd': getattr(r, 'verus_cmd', None) or getattr(r, 'cmd', None),
        'input': f.get('counterexample'),
        'replay_test': f.get('replay_test'),
    }
    found = bool(f.get('counterexample'))
    if not found:
        try:
            import finder
            cex = finder.find(prop, f, repo, tier)
            if cex:
                doc['input'] = cex
                found = True
        except Exception as e:   # the finder never decides
            doc['finder_error'] = repr(e)
    doc['failing_input_found'] = found
    with open(path, 'w') as fh:
        json.dump(doc, fh, indent=1)
    return path, found


def run(prop, path, repo):
    """Replay: re-run the unit; report whether the recorded obligation still fails; run the concrete
    reproducer if the file carries one."""
    doc = json.load(open(path))
    print('replay: property=%s unit=%s function=%s obligation=%s' % (prop, doc['unit'], doc['function'], doc['obligation']))
    if doc.get('source'):
        print('replay: real code at %s : %s' % (doc['source'], doc.get('statement')))
    still = False
    if doc['unit'].startswith('bounded:'):
        # the obligation was decided by the bounded stand-in (the verifier could not reach the restructured function):
        # re-run the verifier first -- if it can reach the code again, its verdict counts
        import vrun
        r = vrun.run_unit(doc['unit'][8:], repo)
        if r.status == 'undecided':
            print('replay: verifier still cannot reach the function (%s); re-running the bounded harness' % r.reason[:160])
        class _R:  # nothing failed in the verifier's run that matches a bounded label
            status = 'ok'; failures = []; reason = ''
        r = _R()
    elif doc['unit'].startswith('kani:'):
        import kx
        r = kx.run_group(doc['unit'][5:], repo, 'quick')
    else:
        import vrun
        r = vrun.run_unit(doc['unit'], repo)
    if r.status == 'undecided':
        print('UNDECIDED property=%s reason=%s' % (prop, r.reason))
        return 2
    for f in r.failures:
        if f['fn'] == doc['function'] and f['label'] == doc['obligation']:
            still = True
            print(f.get('rendered') or f.get('message'))
    if doc.get('input'):
        print('replay: recorded failing input: %s' % json.dumps(doc['input'])[:2000])
        try:
            import finder
            ok = finder.replay_input(doc, repo)
            print('replay: concrete input %s on the real code' % ('FAILS (reproduced)' if ok else 'does not fail'))
            still = still or ok
        except Exception as e:
            print('replay: could not run concrete input: %r' % (e,))
    if still:
        print('VIOLATION property=%s replay=%s' % (prop, path))
        return 1
    print('replay: obligation holds on the current tree')
    return 0
