#!/usr/bin/env python3
"""vx -- debugging front end: generate and verify one unit."""
import sys, json, argparse
sys.path.insert(0, __import__('os').path.dirname(__import__('os').path.abspath(__file__)))
import vrun

ap = argparse.ArgumentParser()
ap.add_argument('unit')
ap.add_argument('--repo', default='/repo')
ap.add_argument('--no-twins', action='store_true')
ap.add_argument('--gen-only', action='store_true')
ap.add_argument('-v', action='store_true')
ap.add_argument('--tag', default='_dev')
a = ap.parse_args()
if a.gen_only:
    u = vrun.generate(a.unit, a.repo)
    sys.stdout.write(u.render(with_twins=not a.no_twins)[0])
    sys.exit(0)
r = vrun.run_unit(a.unit, a.repo, twins=not a.no_twins, tag=a.tag)
print('unit', r.name, 'status', r.status, r.reason)
print('verified', r.n_verified, 'errors', r.n_errors, 'wall %.1fs' % r.wall_s, 'smt_ms', r.smt_ms)
print('twins ok', len(r.twins_ok), 'bad', r.twins_bad)
for f in r.failures:
    print('FAIL', f['fn'], f['label'], f['kind'], f['props'], f['src'], '|', f['stmt'][:100])
    if a.v:
        print(f['rendered'])
if a.v:
    for l in r.rule_log:
        print(l)
    print(r.trusted)
if r.status == 'undecided':
    print(r.raw[-3000:] if a.v else '')
