#!/usr/bin/env python3
"""pseed.py <name> <dir-with-patch.diff,demo.rs,meta.json> <property> [more properties...]

Like seed.py, but never touches /repo: confirmation and checks both run on scratch snapshots, with the private scratch
build tree named by VERIF_BUILD (so that several can run at the same time).

Confirms a seeded property-breaking change on a scratch copy of /repo (suite passes with it, demo fails with it,
demo passes without it), stores it under /verif/seeded/<name>/, then applies it to /repo, runs the registered
checks for the given properties, and undoes it straight afterwards."""
import json, os, shutil, subprocess, sys, fcntl

name, src = sys.argv[1], sys.argv[2]
props = sys.argv[3:]
VERIF = '/verif'
dst = os.path.join(VERIF, 'seeded', name)
os.makedirs(dst, exist_ok=True)
for f in ('patch.diff', 'demo.rs', 'meta.json'):
    if os.path.abspath(os.path.join(src, f)) != os.path.abspath(os.path.join(dst, f)):
        shutil.copy(os.path.join(src, f), os.path.join(dst, f))
patch = os.path.join(dst, 'patch.diff')
BUILD = os.environ.get('VERIF_BUILD') or '/verif/build'
S = '/tmp/vxseed_src_%s' % name
env = dict(os.environ, CARGO_NET_OFFLINE='true', CARGO_TARGET_DIR=os.path.join(BUILD, 'seed-target'))

def sh(cmd, cwd=S, **kw):
    return subprocess.run(cmd, shell=True, cwd=cwd, env=env, capture_output=True, text=True, **kw)

def fresh(with_patch):
    shutil.rmtree(S, ignore_errors=True)
    os.makedirs(S, exist_ok=True)
    subprocess.run('git -C /repo archive HEAD | tar -x -C %s' % S, shell=True, check=True)
    if with_patch:
        r = sh('git init -q . && git apply --whitespace=nowarn %s' % patch)
        if r.returncode != 0:
            r = sh('patch -p1 < %s' % patch)
        if r.returncode != 0:
            return r.stderr + r.stdout
    shutil.copy(os.path.join(dst, 'demo.rs'), os.path.join(S, 'tests', 'verif_seed_demo.rs'))
    sh("find . -name '*.rs' -exec touch {} +")
    return None

res = {}
err = fresh(True)
if err:
    res['apply_error'] = err[-2000:]
else:
    r = sh('cargo test --workspace --no-fail-fast --offline 2>&1 | grep -E "^test result|FAILED|panicked" | head -20')
    lines = r.stdout.strip().split('\n')
    # the demo test file is part of the workspace tests; exclude it from the suite verdict
    r1 = sh('cargo test --offline --lib 2>&1 | grep -E "^test result"')
    r1b = sh('cargo test --offline --test ax25-decode --test vecsource 2>&1 | grep -E "^test result"; ls tests')
    res['suite_with_patch'] = (r1.stdout + r1b.stdout).strip().split('\n')
    r2 = sh('cargo test --offline --test verif_seed_demo 2>&1 | grep -E "^test |^test result|panicked" | head -20')
    res['demo_with_patch'] = r2.stdout.strip().split('\n')
    fresh(False)
    r3 = sh('cargo test --offline --test verif_seed_demo 2>&1 | grep -E "^test |^test result|panicked|error" | head -20')
    res['demo_without_patch'] = r3.stdout.strip().split('\n')
shutil.rmtree(S, ignore_errors=True)
suite_ok = all('ok.' in l for l in res.get('suite_with_patch', []) if l.startswith('test result')) and any(l.startswith('test result') for l in res.get('suite_with_patch', []))
demo_fails = any('FAILED' in l for l in res.get('demo_with_patch', []))
demo_passes = any(l.startswith('test result: ok') for l in res.get('demo_without_patch', []))
res['confirmed'] = bool(suite_ok and demo_fails and demo_passes)
# ---- run the checks against a snapshot with the patch applied
checks = {}
SN = '/tmp/vxseed_snap_%s' % name
shutil.rmtree(SN, ignore_errors=True)
os.makedirs(SN)
subprocess.run('git -C /repo archive HEAD | tar -x -C %s' % SN, shell=True, check=True)
a = subprocess.run('git init -q . && git apply --whitespace=nowarn %s' % patch, shell=True, cwd=SN, capture_output=True, text=True)
if a.returncode != 0:
    checks['apply_error'] = (a.stderr + a.stdout)[-1000:]
else:
    for p in props:
        r = subprocess.run([os.path.join(VERIF, 'check'), p], capture_output=True, text=True, env=dict(os.environ, VERIF_NOEVIDENCE='1', VERIF_REPO=SN))
        checks[p] = {'rc': r.returncode, 'lines': [l for l in r.stdout.strip().split('\n') if not l.startswith('KNOWN-FINDING')][:8]}
shutil.rmtree(SN, ignore_errors=True)
res['checks'] = checks
res['detected'] = any(isinstance(v, dict) and v.get('rc') == 1 for v in checks.values())
meta = json.load(open(os.path.join(dst, 'meta.json')))
# the verdict of the checks as they stood when the seed was first run is kept for the record
if 'first_shot' not in meta:
    meta['first_shot'] = {'detected': res.get('detected'), 'checks': {k: (v.get('rc') if isinstance(v, dict) else v) for k, v in res.get('checks', {}).items()}}
meta['verif'] = res
json.dump(meta, open(os.path.join(dst, 'meta.json'), 'w'), indent=1)
print(name, 'confirmed=%s detected=%s' % (res['confirmed'], res['detected']))
for p, v in checks.items():
    print('  ', p, v if not isinstance(v, dict) else (v['rc'], v['lines'][:3]))
if not res['confirmed']:
    print(json.dumps({k: res[k] for k in res if k != 'checks'}, indent=1)[:3000])
