#!/usr/bin/env python3
"""Regenerate seeded/RESULTS.md from seeded/*/meta.json."""
import json, glob, os
rows = []
for d in sorted(glob.glob('/verif/seeded/*/')):
    m = os.path.join(d, 'meta.json')
    if not os.path.exists(m):
        continue
    j = json.load(open(m))
    v = j.get('verif', {})
    name = os.path.basename(d.rstrip('/'))
    checks = v.get('checks', {})
    res = []
    for p, c in sorted(checks.items()):
        if not isinstance(c, dict):
            res.append('%s: %s' % (p, str(c)[:60])); continue
        what = {0: 'OK (missed)', 1: 'VIOLATION', 2: 'UNDECIDED'}.get(c['rc'], str(c['rc']))
        ob = ''
        for l in c['lines']:
            if 'obligation=' in l:
                ob = l.split('obligation=')[1].split(' ')[0]; break
            if l.startswith('UNDECIDED'):
                ob = l.split('reason=')[1][:80]; break
        res.append('%s: %s %s' % (p, what, ob))
    rows.append((name, j.get('property'), ', '.join(j.get('files_changed', []))[:60], (j.get('what_it_breaks') or '')[:160].replace('|', '/').replace('\n', ' '),
                 (j.get('needs_to_manifest') or '')[:160].replace('|', '/').replace('\n', ' '), 'yes' if v.get('confirmed') else 'NO',
                 {True: 'yes', False: 'no', None: '?'}[(j.get('first_shot') or {}).get('detected')], ('yes' if v.get('detected') else ('n/a (neutralised by a later fix)' if j.get('neutralised') else 'no')), '; '.join(res)))
with open('/verif/seeded/RESULTS.md', 'w') as f:
    f.write('# Seeded property-breaking changes and what the checks said\n\n')
    f.write('Each row: a change written by a fresh sub-agent from the property text alone; confirmed = suite passes with it, its demo fails with it and passes without it (vx/seed.py).\n\n')
    n = len(rows); det = sum(1 for r in rows if r[7] == 'yes'); neut = sum(1 for r in rows if r[7].startswith('n/a')); fs = sum(1 for r in rows if r[6] == 'yes')
    f.write('%d seeds. FIRST SHOT (the checks as they stood when the seed arrived): %d reported as VIOLATION, %d not (silent pass or UNDECIDED).\n' % (n, fs, n - fs))
    f.write('NOW (after the checks were extended because of the misses; see DESIGN.md section 10): %d reported as VIOLATION, %d not, %d no longer a violation because a later fix: commit removed what they relied on.\n\n' % (det, n - det - neut, neut))
    f.write('| seed | property | files | what it breaks | needs | confirmed | detected first shot | detected now | check results (now) |\n|---|---|---|---|---|---|---|---|---|\n')
    for r in rows:
        f.write('| ' + ' | '.join(r) + ' |\n')
print(open('/verif/seeded/RESULTS.md').read()[:3000])
