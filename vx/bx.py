"""bx -- BOUNDED contract checks of the real code (stand-in where the verifier cannot reach; never counted as proof).

Compiles a harness (an integration test under /verif/bx) against a scratch copy of the real crate and runs it.
Used (1) as the replay finder: to attach a concrete failing input to a failed Verus obligation, (2) as the bounded
stand-in when a unit is undecided because the extraction lost its anchors (restructured function), (3) in the
thorough tier as a cross-check of the contracts on the compiled code."""
import fcntl
import json
import os
import re
import subprocess
import time

VERIF = os.path.dirname(os.path.dirname(os.path.abspath(__file__)))
BUILD = os.environ.get('VERIF_BUILD') or os.path.join(VERIF, 'build')   # VERIF_BUILD: a private scratch tree for parallel development runs (vx/preseed.py)
SRC = os.path.join(BUILD, 'bx-src')
TARGET = os.path.join(BUILD, 'bx-target')

# unit -> (harness file, BX_TARGETS value)
UNIT_HARNESS = {
    'ring': ('ring_harness.rs', 'ring'),
    'skip': ('blocks_harness.rs', 'skip'),
    'delay': ('blocks_harness.rs', 'delay'),
    'vsrc': ('blocks_harness.rs', 'vsrc'),
    'v2s': ('blocks_harness.rs', 'v2s'),
    'fir': ('blocks_harness.rs', 'fir'),
    'resampler': ('blocks_harness.rs', 'resampler'),
    'consts': ('blocks_harness.rs', 'consts'),
    'repeat': ('blocks_harness.rs', 'repeat'),
    'hdlc': ('blocks_harness.rs', 'hdlc'),
    'crc': ('blocks_harness.rs', 'hdlc'),     # calc_crc / find_right_crc are exercised through the deframer (incl. single-bit repair)
    'synclib': ('blocks_harness.rs', 'sync'),
    'sync': ('blocks_harness.rs', 'sync'),
    # floating-point blocks: differential chunk-independence (roomy run vs adversarial drip-feed run), tags one-to-one
    'dsp': ('dsp_harness.rs', 'zc,zcclk,symsync,ssclk,fftfilt,fftfiltc,fftstream,firf,hilbert,iir1,slicer,qdemod'),
    'fftstream': ('dsp_harness.rs', 'fftstream'),
    'zc': ('dsp_harness.rs', 'zc,zcclk'),
    'symsync': ('dsp_harness.rs', 'symsync,ssclk'),
    'fftfilter': ('dsp_harness.rs', 'fftfilt,fftfiltc'),
    'hilbert': ('dsp_harness.rs', 'hilbert'),
    # byte-oriented / file / socket blocks
    'rtlsdr': ('io_harness.rs', 'rtlsdr'),
    'fsink': ('io_harness.rs', 'fsink'),
    'fsrc': ('io_harness.rs', 'fsrc'),
    's2pdu': ('io_harness.rs', 's2pdu'),
    'auenc': ('io_harness.rs', 'auenc'),
    'tcp': ('io_harness.rs', 'tcp'),
    'wpcr': ('io_harness.rs', 'wpcr'),
    'il2p': ('io_harness.rs', 'il2p'),
    'stream': ('io_harness.rs', 'stream'),
    'totext': ('io_harness.rs', 'totext'),
    'misc': ('io_harness.rs', 'misc'),
    'au': ('io_harness.rs', 'audec'),
    # derive users of hooks/syncx_blocks.rs (the file is prepended to the harness: same module, private fields visible)
    'syncx': ('syncx_harness.rs', 'syncx'),
    'sigmf': ('io_harness.rs', 'sigmf'),
    'kernels': ('kernels_harness.rs', 'kernels'),
    'io': ('io_harness.rs', 'il2p,s2pdu,wpcr'),
}


class BxResult:
    def __init__(self):
        self.status = 'ok'      # ok | failed | undecided
        self.reason = ''
        self.fails = []         # dicts from BXFAIL lines
        self.stats = []
        self.cmd = ''
        self.wall_s = 0.0
        self.raw = ''


def run(units, repo='/repo', depth=None, n=None, seed=None, timeout=600):
    res = BxResult()
    t0 = time.time()
    harnesses = {}
    for u in units:
        if u in UNIT_HARNESS:
            h, t = UNIT_HARNESS[u]
            harnesses.setdefault(h, []).append(t)
    if not harnesses:
        res.status, res.reason = 'undecided', 'no bounded harness for %s' % units
        return res
    os.makedirs(BUILD, exist_ok=True)
    with open(os.path.join(BUILD, 'bx.lock'), 'w') as lk:
        fcntl.flock(lk, fcntl.LOCK_EX)
        import synctree
        synctree.sync(repo, SRC)
        os.makedirs(os.path.join(SRC, 'tests'), exist_ok=True)
        env = dict(os.environ, CARGO_NET_OFFLINE='true', CARGO_TARGET_DIR=TARGET, RUST_MIN_STACK='67108864', CARGO_PROFILE_DEV_OPT_LEVEL='1')
        if depth:
            env['BX_DEPTH'] = str(depth)
        if n:
            env['BX_N'] = str(n)
        if seed is not None:
            env['VERIF_SEED'] = str(seed)
        for h, targets in harnesses.items():
            name = 'verif_bx_' + h.replace('_harness.rs', '')
            dst = os.path.join(SRC, 'tests', name + '.rs')
            with open(os.path.join(VERIF, 'bx', h)) as f:
                text = f.read()
            if h == 'syncx_harness.rs':
                text = open(os.path.join(VERIF, 'hooks', 'syncx_blocks.rs')).read() + '\n' + text
            if not os.path.exists(dst) or open(dst).read() != text:
                open(dst, 'w').write(text)
            env['BX_TARGETS'] = ','.join(targets)
            cmd = ['cargo', 'test', '--offline', '--test', name, '--', '--nocapture', '--test-threads', '1']
            res.cmd += ('; ' if res.cmd else '') + 'BX_TARGETS=%s ' % env['BX_TARGETS'] + ' '.join(cmd)
            try:
                pp = subprocess.Popen(cmd, cwd=SRC, env=env, stdout=subprocess.PIPE, stderr=subprocess.PIPE, text=True, start_new_session=True)
                try:
                    so, se = pp.communicate(timeout=timeout)
                except subprocess.TimeoutExpired:
                    import signal
                    os.killpg(pp.pid, signal.SIGKILL)
                    pp.communicate()
                    raise
                p = subprocess.CompletedProcess(cmd, pp.returncode, so, se)
            except subprocess.TimeoutExpired:
                res.status, res.reason = 'undecided', 'bounded harness timeout'
                continue
            out = p.stdout + '\n' + p.stderr
            res.raw += out[-6000:]
            got_stat = False
            for ln in out.split('\n'):
                m = re.search(r'BXFAIL (\{.*\})\s*$', ln)
                if m:
                    try:
                        res.fails.append(json.loads(m.group(1)))
                    except Exception:
                        res.fails.append({'target': '?', 'property': '?', 'label': 'unparsed', 'what': m.group(1)[:300]})
                m = re.search(r'BXSTAT (\{.*\})\s*$', ln)
                if m:
                    got_stat = True
                    try:
                        res.stats.append(json.loads(m.group(1)))
                    except Exception:
                        pass
            if not got_stat and not res.fails:
                res.status, res.reason = 'undecided', 'bounded harness did not run (build error?): ' + out[-800:]
        fcntl.flock(lk, fcntl.LOCK_UN)
    if res.fails:
        res.status = 'failed'
    res.wall_s = time.time() - t0
    return res


if __name__ == '__main__':
    import sys
    r = run(sys.argv[1].split(','), repo=sys.argv[2] if len(sys.argv) > 2 else '/repo')
    print(r.status, r.reason[:2000])
    for f in r.fails:
        print('FAIL', json.dumps(f)[:600])
    for s in r.stats:
        print('STAT', s)
    print('wall %.1fs' % r.wall_s)
