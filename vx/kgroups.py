"""Kani harness groups (unit U-kernels)."""
LIB = ('src/lib.rs', 'verif_kani_lib', 'lib_proofs.rs')
DES = ('src/descrambler.rs', 'verif_kani', 'descrambler_proofs.rs')
IL2P = ('src/il2p_deframer.rs', 'verif_kani', 'il2p_proofs.rs')
HDLC = ('src/hdlc_deframer.rs', 'verif_kani', 'hdlc_proofs.rs')
ALLFILES = [LIB, DES, IL2P, HDLC]


def H(name, file, function, label, props, claim, domain, bounded=None, thorough_only=False):
    return {'name': name, 'file': file, 'function': function, 'label': label, 'props': props, 'claim': claim,
            'domain': domain, 'bounded': bounded, 'thorough_only': thorough_only}


G = {}
_codec = []
for t, n in (('u8', 1), ('u32', 4), ('i32', 4), ('float', 4), ('complex', 8)):
    T = {'u8': 'u8', 'u32': 'u32', 'i32': 'i32', 'float': 'Float', 'complex': 'Complex'}[t]
    _codec.append(H('codec_%s_roundtrip' % t, 'src/lib.rs', '<%s as Sample>::{serialize,parse,size}' % T,
                    'C14.codec.%s.parse-serialize-identity' % t, ['C14'],
                    'parse(serialize(x)) is bit-identical to x and serialize(x).len() == size()', 'every value / bit pattern of %s' % T))
    _codec.append(H('codec_%s_parse_total' % t, 'src/lib.rs', '<%s as Sample>::parse' % T,
                    'C14+C15.codec.%s.parse-total-and-serialize-inverse' % t, ['C14', 'C15'],
                    'parse never errs or panics on a slice of size() bytes; serialize(parse(d)) == d', 'every %d-byte pattern' % n))
G['codecs'] = {'files': ALLFILES, 'harnesses': _codec}
G['repeat'] = {'files': ALLFILES, 'harnesses': [
    H('repeat_api_total', 'src/lib.rs', 'Repeat::{again,done,count}', 'C16.repeat.compiled-code-cross-check', ['C16'],
      'three consecutive again() calls from any state never panic; done/again/count agree with the spec', 'all n, count: u64 (count < 2^64-4), finite and infinite'),
]}
G['lfsr'] = {'files': ALLFILES, 'harnesses': [
    H('lfsr_next_spec', 'src/descrambler.rs', 'descrambler::Lfsr::{new,next}', 'C10.lfsr.step', ['C10'],
      'output bit == parity(shift_reg & mask) ^ i; shift_reg\' == (shift_reg >> 1) | (i << len)', 'all mask, seed: u64, len < 64, i in {0,1}'),
    H('lfsr_next_total', 'src/descrambler.rs', 'descrambler::Lfsr::next', 'C15.lfsr.next-total', ['C15'],
      'next() does not panic for any input byte', 'all mask, seed: u64, i: u8'),
    H('il2p_lfsr_next_spec', 'src/il2p_deframer.rs', 'il2p_deframer::Lfsr::{new,next}', 'C10.il2p-lfsr.step', ['C10'],
      'output == i ^ lsb(shift_reg); shift_reg\' == (shift_reg >> 1) ^ (i ? mask : 0)', 'all mask, seed: u64, i in {0,1}'),
    H('il2p_lfsr_next_total', 'src/il2p_deframer.rs', 'il2p_deframer::Lfsr::next', 'C15.il2p-lfsr.next-total', ['C15'],
      'next() does not panic for any input byte', 'all mask, seed: u64, i: u8'),
    H('il2p_bits_to_bytes_16', 'src/il2p_deframer.rs', 'il2p_deframer::bits_to_bytes', 'C15.il2p.bits-to-bytes', ['C15', 'C10'],
      'no panic for arbitrary byte values; MSB-first packing when all are bits', 'all [u8; 16]', bounded='16 input bits = 2 output bytes (complete for that length; the loop body is the same for every byte)'),
]}
G['hdlc'] = {'files': ALLFILES, 'harnesses': [
    H('bits2byte_all', 'src/hdlc_deframer.rs', 'hdlc_deframer::bits2byte', 'C13.bits2byte.lsb-first', ['C13'],
      'bits2byte(d) == sum d[i] * 2^i', 'all 256 bit vectors'),
    H('bits2byte_total', 'src/hdlc_deframer.rs', 'hdlc_deframer::bits2byte', 'C15.bits2byte.total', ['C15'],
      'no panic / overflow for arbitrary byte values in the 8-element window', 'all [u8; 8]'),
    H('crc_len1', 'src/hdlc_deframer.rs', 'hdlc_deframer::calc_crc + FCSTAB', 'C13.crc.len1', ['C13', 'C15'],
      'calc_crc(d) == bitwise reflected CRC-16/X.25 (poly 0x8408, init/xorout 0xffff); pins all 256 FCSTAB entries', 'all 1-byte messages', bounded='message length 1 (complete for that length)'),
    H('crc_len2', 'src/hdlc_deframer.rs', 'hdlc_deframer::calc_crc + FCSTAB', 'C13.crc.len2', ['C13', 'C15'],
      'as crc_len1; additionally pins the byte-composition step (fcs >> 8) ^ FCSTAB[..]', 'all 2-byte messages', bounded='message length 2 (complete for that length)'),
    H('crc_len3', 'src/hdlc_deframer.rs', 'hdlc_deframer::calc_crc + FCSTAB', 'C13.crc.len3', ['C13', 'C15'],
      'as crc_len2', 'all 3-byte messages', bounded='message length 3 (complete for that length)', thorough_only=True),
    H('crc_len4', 'src/hdlc_deframer.rs', 'hdlc_deframer::calc_crc + FCSTAB', 'C13.crc.len4', ['C13', 'C15'],
      'as crc_len2', 'all 4-byte messages', bounded='message length 4 (complete for that length)', thorough_only=True),
    H('crc_len6', 'src/hdlc_deframer.rs', 'hdlc_deframer::calc_crc + FCSTAB', 'C13.crc.len6', ['C13', 'C15'],
      'as crc_len2', 'all 6-byte messages', bounded='message length 6 (complete for that length)', thorough_only=True),
    H('crc_len8', 'src/hdlc_deframer.rs', 'hdlc_deframer::calc_crc + FCSTAB', 'C13.crc.len8', ['C13', 'C15'],
      'as crc_len2', 'all 8-byte messages', bounded='message length 8 (complete for that length)', thorough_only=True),
]}
