"""Macro expansion of /repo as a cut source (virtual paths `@expanded/lib`, `@expanded/hooks`).

The derive macro's output never appears in /repo's source text, so the text-cutting extractor cannot reach it.
rustc can print it: `cargo rustc .. -- -Zunpretty=expanded` (RUSTC_BOOTSTRAP=1 on the repository's own toolchain).
  lib    the expansion of the rustradio library crate: every in-crate user of the derive
  hooks  the expansion of /verif/hooks/syncx_blocks.rs compiled as an integration test of a scratch copy of /repo:
         derive users of every arity that exist only for verification (/repo itself carries no hook code)
Both are produced from /repo's CURRENT working tree on every run (scratch copy synced by checksum); what rustc prints
is the token stream rustradio_macros generated, pretty-printed, i.e. the code that is compiled into a user's block.
"""
import fcntl
import hashlib
import os
import re
import subprocess
import time

VERIF = os.path.dirname(os.path.dirname(os.path.abspath(__file__)))
BUILD = os.environ.get('VERIF_BUILD') or os.path.join(VERIF, 'build')
SRC = os.path.join(BUILD, 'xp-src')
TARGET = os.path.join(BUILD, 'xp-target')
HOOKS = os.path.join(VERIF, 'hooks', 'syncx_blocks.rs')
TEST_NAME = 'verif_syncx'


class ExpandError(Exception):
    """The expansion could not be produced. `derive_only` is True when every compiler error points into
    derive-generated code of the hook file (the macro no longer serves a documented use)."""

    def __init__(self, msg, derive_only=False, output=''):
        super().__init__(msg)
        self.derive_only = derive_only
        self.output = output


_cache = {}


def _tree_hash(repo):
    h = hashlib.sha256()
    for sub in ('src', 'rustradio_macros', 'Cargo.toml', 'Cargo.lock', 'build.rs'):
        p = os.path.join(repo, sub)
        if os.path.isfile(p):
            h.update(sub.encode())
            h.update(open(p, 'rb').read())
        elif os.path.isdir(p):
            for root, dirs, files in os.walk(p):
                dirs[:] = sorted(d for d in dirs if d != 'target')
                for f in sorted(files):
                    fp = os.path.join(root, f)
                    h.update(os.path.relpath(fp, repo).encode())
                    h.update(open(fp, 'rb').read())
    h.update(open(HOOKS, 'rb').read())
    return h.hexdigest()


def _diagnose(stdout):
    """Parse `--message-format=json` output.  Returns (errors as text lines, all errors lie in derive-generated code of
    the hook file)."""
    import json
    errs = []
    derive_only = True
    for l in stdout.split('\n'):
        try:
            d = json.loads(l)
        except ValueError:
            continue
        if d.get('reason') != 'compiler-message' or d['message'].get('level') != 'error':
            continue
        m = d['message']
        if m['message'].startswith('aborting due to'):
            continue
        spans = m.get('spans') or []
        errs.append('%s: %s' % (', '.join('%s:%d' % (s['file_name'], s['line_start']) for s in spans), m['message']))
        for s in spans:
            exp = s.get('expansion') or {}
            if not (s['file_name'].endswith('tests/%s.rs' % TEST_NAME) and 'rustradio_macros::Block' in (exp.get('macro_decl_name') or '')):
                derive_only = False
        if not spans:
            derive_only = False
    return errs, (derive_only and bool(errs))


def get(repo, which):
    """Return the expansion text; raises ExpandError."""
    key = (os.path.abspath(repo), which)
    th = _tree_hash(repo)
    if key in _cache and _cache[key][0] == th:
        return _cache[key][1]
    os.makedirs(BUILD, exist_ok=True)
    out_file = os.path.join(BUILD, 'expanded_%s.rs' % which)
    stamp = out_file + '.sha'
    with open(os.path.join(BUILD, 'xp.lock'), 'w') as lk:
        fcntl.flock(lk, fcntl.LOCK_EX)
        if os.path.exists(out_file) and os.path.exists(stamp) and open(stamp).read() == th:
            text = open(out_file).read()
            _cache[key] = (th, text)
            return text
        import synctree
        synctree.sync(repo, SRC)
        os.makedirs(os.path.join(SRC, 'tests'), exist_ok=True)
        dst = os.path.join(SRC, 'tests', TEST_NAME + '.rs')
        new = open(HOOKS).read()
        if not os.path.exists(dst) or open(dst).read() != new:
            open(dst, 'w').write(new)
        env = dict(os.environ, CARGO_NET_OFFLINE='true', CARGO_TARGET_DIR=TARGET, RUSTC_BOOTSTRAP='1')
        sel = ['--lib'] if which == 'lib' else ['--test', TEST_NAME]
        cmd = ['cargo', 'rustc', '--offline'] + sel + ['--profile', 'check', '--', '-Zunpretty=expanded']
        t0 = time.time()
        p = subprocess.run(cmd, cwd=SRC, env=env, capture_output=True, text=True, timeout=1200)
        if p.returncode != 0 or not p.stdout.strip():
            derive_only = False
            tail = '\n'.join(l for l in p.stderr.split('\n') if not l.startswith('warning'))[-6000:]
            raise ExpandError('macro expansion (%s) failed: %s' % (which, ' '.join(cmd)), derive_only, tail)
        text = p.stdout
        if which == 'hooks':
            # -Zunpretty=expanded stops before type checking: the generated code must also compile
            c = subprocess.run(['cargo', 'check', '--offline', '--test', TEST_NAME, '--message-format=json'], cwd=SRC,
                               env=env, capture_output=True, text=True, timeout=1200)
            if c.returncode != 0:
                errs, derive_only = _diagnose(c.stdout)
                raise ExpandError('derive users in hooks/syncx_blocks.rs do not compile', derive_only,
                                  '\n'.join(errs) or c.stderr[-4000:])
        open(out_file, 'w').write(text)
        open(stamp, 'w').write(th)
        open(out_file + '.time', 'w').write('%.1f' % (time.time() - t0))
    _cache[key] = (th, text)
    return text


if __name__ == '__main__':
    import sys
    w = sys.argv[1] if len(sys.argv) > 1 else 'hooks'
    r = sys.argv[2] if len(sys.argv) > 2 else '/repo'
    try:
        t = get(r, w)
        print(len(t.split('\n')), 'lines')
    except ExpandError as e:
        print('FAILED', e, 'derive_only=%s' % e.derive_only)
        print(e.output)
