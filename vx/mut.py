#!/usr/bin/env python3
"""mut.py PROP FILE 'old' 'new' -- apply one textual mutation to a scratch copy of /repo/src and run ./check PROP on it."""
import os, shutil, subprocess, sys, tempfile
prop, rel, old, new = sys.argv[1:5]
d = tempfile.mkdtemp(prefix='vxmut_', dir='/tmp')
try:
    subprocess.run(['rsync', '-a', '--exclude', 'target', '--exclude', '.git', '/repo/', d + '/'], check=True)
    p = os.path.join(d, rel)
    s = open(p).read()
    if s.count(old) != 1:
        print('mutation site found %d times' % s.count(old)); sys.exit(3)
    open(p, 'w').write(s.replace(old, new))
    env = dict(os.environ, VERIF_REPO=d, VERIF_NOEVIDENCE='1')
    r = subprocess.run(['/verif/check', prop], env=env, capture_output=True, text=True)
    print(r.stdout.strip()); print('rc=%d' % r.returncode)
finally:
    shutil.rmtree(d, ignore_errors=True)
